#!/bin/bash
# tools/seedtest.sh <patch.diff> [ids...] — try a seeded change on a scratch worktree
# (never on /repo): pinned suite must still pass, then run the quick checks and report
# which ones raise a violation. Scratch worktree: /tmp/w1/repo (created on demand).
set -u
PATCH="$(readlink -f "$1")"; shift
IDS="$@"
cd "$(dirname "$0")/.."
[ -z "$IDS" ] && IDS=$(python3 -c "import json;print(' '.join(c['property_id'] for c in json.load(open('MANIFEST.json'))['checks']))")
W=${SEED_W:-/tmp/w1/repo}
export GOFLAGS=-mod=mod GOPROXY=off GOSUMDB=off GOTOOLCHAIN=local
if [ ! -d "$W" ]; then mkdir -p "$(dirname "$W")"; git -C /repo worktree add -q --detach "$W" main; fi
git -C "$W" checkout -q --detach main && git -C "$W" checkout -q -- . && git -C "$W" clean -qfd
git -C "$W" apply "$PATCH" || { echo "PATCH DOES NOT APPLY"; exit 2; }
if (cd "$W" && go build ./... && go test -vet=off -count=1 ./... >"$W.suite.log" 2>&1); then echo "suite: pass"; else echo "suite: FAIL (see $W.suite.log)"; fi
caught=""
for id in $IDS; do
  out=$(VERIF_REPO="$W" ./check $id quick 2>&1); rc=$?
  if [ $rc -eq 1 ]; then
    caught="$caught $id"
    echo "$id: VIOLATION $(echo "$out" | grep -m2 'signature:' | tr '\n' ' ' | cut -c1-260)"
  elif [ $rc -ne 0 ]; then
    echo "$id: rc=$rc $(echo "$out" | grep -m1 -E 'INCONCLUSIVE|rror' | cut -c1-200)"
  fi
done
echo "caught by:${caught:- (none)}"
git -C "$W" checkout -q -- . && git -C "$W" clean -qfd
# scratch output accumulates under .scratch (several seedtests may run at once); remove it by hand
