#!/bin/bash
# tools/seed_import.sh <mutation dir> <name> <property> "<needs>" — verify (suite passes,
# demo fails with / passes without the change, which quick checks catch it) and store
# under /verif/seeded/<name>/.
set -u
M="$(readlink -f "$1")"; NAME="$2"; PROP="$3"; NEEDS="$4"
cd "$(dirname "$0")/.."
D=seeded/$NAME
mkdir -p $D
dv=$(tools/demo_verify.sh "$M" 2>&1 | grep -v '^WARNING conda')
res=$(echo "$dv" | grep '^RESULT')
st=$(tools/seedtest.sh "$M/patch.diff" ${SEED_IDS:-$PROP} 2>&1 | grep -v '^WARNING conda')
cp "$M/patch.diff" $D/patch.diff
for f in demo_test.go main.go README.md; do [ -f "$M/$f" ] && cp "$M/$f" $D/$f; done
python3 - "$D" "$PROP" "$NEEDS" "$res" "$st" <<'PY'
import json,sys
d,prop,needs,res,st=sys.argv[1:6]
caught=[l.split(':')[1].split() for l in st.splitlines() if l.startswith('caught by')]
sigs=[l.strip() for l in st.splitlines() if 'VIOLATION' in l]
meta={"breaks_property":prop,"needs_to_manifest":needs,
 "suite_with_change": "pass" if "suite: pass" in st else "FAIL",
 "demo": res, "quick_checks_run": st.splitlines()[-1] if st else "", "caught_by": caught[0] if caught else [],
 "first_signatures": sigs[:4],
 "what_was_run": ["tools/demo_verify.sh <dir> (demo on clean scratch worktree, then with patch applied)", "tools/seedtest.sh patch.diff <ids> (pinned suite on the patched worktree, then ./check <id> quick with VERIF_REPO pointing at it)"]}
json.dump(meta,open(d+'/meta.json','w'),indent=1)
print(d, res, meta['suite_with_change'], 'caught by', meta['caught_by'])
PY
