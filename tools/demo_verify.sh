#!/bin/bash
# tools/demo_verify.sh <mutation dir> — confirm a seeded change's own demonstration:
# fails with the change applied, passes without (scratch worktree /tmp/w1/repo).
set -u
M="$(readlink -f "$1")"
W=${SEED_W:-/tmp/w1/repo}
export GOFLAGS=-mod=mod GOPROXY=off GOSUMDB=off GOTOOLCHAIN=local
git -C "$W" checkout -q -- . && git -C "$W" clean -qfd
run_demo() {
  if [ -f "$M/demo_test.go" ]; then
    pkg=$(grep -m1 '^package ' "$M/demo_test.go" | awk '{print $2}')
    dir=$(grep -o -m1 'compress/[a-z/]*' "$M/demo_test.go" | head -1)
    [ -z "$dir" ] && dir=$(grep -o -m1 'compress/[a-z/]*' "$M/README.md" | head -1)
    dir=${dir%/}
    case "$pkg" in deflate*) dir=compress/flate/internal/deflate;; esac
    tags=$(grep -m1 '^//go:build' "$M/demo_test.go" | sed 's#//go:build ##')
    cp "$M/demo_test.go" "$W/$dir/zz_demo_test.go"
    out=$(cd "$W" && go test -vet=off -count=1 ${tags:+-tags "$tags"} ./$dir 2>&1); rc=$?
    echo "$out" | tail -4
    rm -f "$W/$dir/zz_demo_test.go"
    return $rc
  else
    d=$(basename "$M")
    mkdir -p "$W/$d" && cp "$M"/*.go "$W/$d/" 2>/dev/null
    out=$(cd "$W" && go run ./$d 2>&1); rc=$?
    echo "$out" | tail -4
    rm -rf "$W/$d"
    return $rc
  fi
}
echo "--- clean tree:"; run_demo; c=$?
git -C "$W" apply "$M/patch.diff" || { echo "patch does not apply"; exit 2; }
echo "--- with the change:"; run_demo; m=$?
git -C "$W" checkout -q -- . && git -C "$W" clean -qfd
echo "RESULT clean_rc=$c mutated_rc=$m"
