#!/bin/bash
# tools/runall.sh [quick|thorough] [ids...] — run checks in sequence, one summary line each.
cd "$(dirname "$0")/.."
TIER="${1:-quick}"; shift
IDS="$@"; [ -z "$IDS" ] && IDS=$(python3 -c "import json;print(' '.join(c['property_id'] for c in json.load(open('MANIFEST.json'))['checks']))")
for id in $IDS; do
  s=$(date +%s)
  out=$(./check $id $TIER 2>&1); rc=$?
  e=$(date +%s)
  echo "$id rc=$rc $((e-s))s $(echo "$out" | grep -E '^(HELD|VIOLATION|INCONCLUSIVE)' | head -3 | cut -c1-220 | tr '\n' ' ')"
  echo "$out" | grep -E '^(KNOWN-FINDING|reach-warning)' | cut -c1-160 | sed 's/^/    /'
done
