#!/bin/bash
# tools/diag.sh [out] — run every seeded change against the quick check of the property it
# breaks (scratch worktree $SEED_W, default /tmp/w3/repo); one line per change.
cd "$(dirname "$0")/.."
OUT="${1:-seeded/DIAGONAL.txt}"
export SEED_W="${SEED_W:-/tmp/w3/repo}"
: > "$OUT"
for d in seeded/*/; do
  n=$(basename "$d")
  [ -f "$d/patch.diff" ] || continue
  p=$(python3 -c "import json;print(json.load(open('$d/meta.json'))['breaks_property'])")
  r=$(tools/seedtest.sh "$d/patch.diff" $p 2>&1 | grep -E '^(caught by|suite|PATCH)' | tr '\n' ' ')
  echo "$n: $p: $r" | tee -a "$OUT"
done
