#!/bin/bash
# tools/matrix.sh [out] — run every quick check against every seeded change (scratch worktree
# $SEED_W, default /tmp/w3/repo) and write "change: checks that raise a violation".
cd "$(dirname "$0")/.."
OUT="${1:-seeded/MATRIX.txt}"
export SEED_W="${SEED_W:-/tmp/w3/repo}"
: > "$OUT"
for d in seeded/*/; do
  n=$(basename "$d")
  [ -f "$d/patch.diff" ] || continue
  r=$(tools/seedtest.sh "$d/patch.diff" 2>&1 | grep '^caught by' | sed 's/caught by://')
  echo "$n:$r" | tee -a "$OUT"
done
