#!/usr/bin/env python3
"""Regenerates /verif/MANIFEST.json from the table below (one row per property)."""
import json, os, subprocess
V = os.path.dirname(os.path.dirname(os.path.abspath(__file__)))
rows = {
 "C01": ("exploration", "differential round trip over generated settings/data/Write-Flush schedules at every forced dispatch level: strict reference inflater + compress/flate + fastgo Reader must all decode the emission to the data; red zones, checkptr (and race/asan samples in thorough)",
         "exploration, because the quantifier is over all inputs and call patterns: the oracle is independent of the case, so the check runs tens of thousands of generated cases incl. every buffer roll-over size, per level", "4/C01"),
 "C02": ("exploration", "differential decode against compress/flate on encoder-produced, synthesised (all legal code shapes) and mutated-but-valid streams, random destination sizes, every forced level", "exploration over streams and read schedules; the synthesiser reaches shapes no encoder at hand emits and the evidence reports the shape histogram", "4/C02"),
 "C03": ("exploration", "hostile-input monitor: permissive reference inflater as upper bound, compress/flate as lower bound, per-case CPU budget, crash attribution by child process, fresh and reused Readers", "exploration over random, mutated, single-fault and truncated inputs; what is decided is accept-subset, no fabricated bytes, error kinds, stickiness, no crash/hang on every input generated", "4/C03"),
 "C04": ("exploration", "schedule-invariance monitor: every delivery/read schedule of a stream must reproduce the all-at-once result (bytes and final error)", "exploration over schedules incl. every split point of small streams and bufio sizes 16..1 MiB via NewReader and Reset", "4/C04"),
 "C05": ("exploration", "source-position monitor: bytes left in the source after io.EOF must equal the suffix that followed the stream, for 11 source kinds x 2 constructors x flate/gzip/zlib", "exploration over streams, suffixes and source kinds; one listed finding (non-bufio io.ByteReader sources are over-read) is keyed on wrapper and source class", "4/C05"),
 "C06": ("exploration", "cross-implementation container monitor: fastgo writer -> stdlib reader and stdlib writer -> fastgo reader, header fields, independently computed trailers, 4 GiB length wrap in thorough", "exploration over payloads, levels, header fields, dictionaries, partitions, reuse", "4/C06"),
 "C07": ("exploration", "corruption monitor with an independent container parser (own header parse + reference inflater + own checksums): io.EOF implies the parser accepts with identical bytes; truncations end in unexpected EOF after a payload prefix", "exploration, exhaustive over single-bit flips and truncation points of small containers, sampled for large ones", "4/C07"),
 "C08": ("exploration", "multi-member monitor: concatenation in default mode; per-member payload/header, Reset at end, untouched trailing data in Multistream(false) mode", "exploration over member sequences, trailing data, buffer and destination sizes", "4/C08"),
 "C09": ("exploration", "emission-equality monitor: the same data and Flush positions under 3-5 different Write partitions must give byte-identical output", "exploration over data, settings and partitions aimed at the buffer roll-overs", "4/C09"),
 "C10": ("exploration", "flush-point monitor: at every successful Flush the emitted prefix must decode (reference, stdlib, fastgo) to all data so far and then need more input", "exploration over histories incl. Flush first/twice/with nothing pending/at roll-overs, all wrappers and levels", "4/C10"),
 "C11": ("exploration", "gated-source monitor: over-demand events (a source request beyond the released prefix, stamped with what the consumer already holds) decide whether data were withheld; blocking, failing and garbage continuations", "exploration over streams, prefixes, gate chunkings and continuations; no clock in the oracle", "4/C11"),
 "C12": ("exploration", "reuse-equivalence monitor: emissions and error-ness after (h1, Reset) must equal a fresh Writer's for h2; h1 reaches every named writer state incl. failed destinations", "exploration over state x later-history matrix; evidence reports the matrix covered", "4/C12"),
 "C13": ("exploration", "reuse-equivalence monitor for Readers: (bytes, error kind) after (history, Reset) must equal a fresh Reader's, incl. hostile next inputs reaching before their own start, stale-table faults and zlib dictionaries", "exploration over histories x next inputs x reader kinds", "4/C13"),
 "C14": ("fault_enumeration", "destination fault enumeration: the destination fails at its k-th call for every k up to the fault-free call count (capped for very long runs): error returned, sticky, no further destination calls, no panic, red zones intact, usable after Reset", "fault_enumeration: the fault space (call index) is enumerated per operation sequence; sequences themselves are sampled", "4/C14"),
 "C15": ("fault_enumeration", "source fault enumeration: the source fails after k bytes for every k of small containers (capped for large), error alone or with the last bytes: that error is returned, sticky, output a payload prefix", "fault_enumeration over fault positions; containers sampled", "4/C15"),
 "C16": ("exploration", "lock-step differential execution against the standard library's Writer over all call sequences up to a bound (exhaustive) plus seeded longer ones; panics, error-ness, emissions after Close, validity at first Close; constructor level acceptance", "exploration, exhaustive to length 4 (quick) / 5-6 (thorough) over a 6-letter call alphabet for 15 settings", "4/C16"),
 "C17": ("exploration", "concurrency monitor: per-workload digests under concurrent execution vs sequential execution, Go race detector build at level 0 and the highest level, overlap and interleaving signatures measured", "exploration over schedules the Go scheduler produces under G in {2..128}, GOMAXPROCS in {1..16} with injected yields; race detector for the memory-model clause", "4/C17"),
 "C18": ("exploration", "offline checker over per-level event logs: every forced dispatch level runs the same case list in its own processes; results are joined on case id and must agree", "exploration over inputs; needs >= 2 runnable levels (0,1,3,4 here)", "4/C18"),
 "C19": ("exploration", "reference-inflater trace monitor: maximum match distance over the whole output <= window, and decodable with a window-sized history", "exploration over periodic / far-copy data aimed at W-1, W, W+1 and 16-bit position aliasing", "4/C19"),
 "C20": ("exploration", "size-bound monitor: the two stated inequalities on adversarial distributions and every period 1..64", "exploration over distributions, sizes and periods; worst observed ratios reported", "4/C20"),
}
notes = {
 "C01": "trusted base: compress/flate of the installed Go, the harness's reference inflater (cross-checked against each other on every case); one listed finding (stdlib dictionary writer)",
 "C02": "compress/flate defines validity and expected bytes; streams on which the reference inflater disagrees with it are dropped and reported as inconclusive counters",
 "C03": "permissive reference = most liberal reading of RFC 1951; CPU-time budget for termination",
 "C04": "baseline correctness is C02/C03's subject",
 "C05": "io.ReadAll on the caller's source after io.EOF",
 "C06": "standard library readers/writers as the other side; crc32/adler32 from hash/*",
 "C07": "independent parser in the harness (refGzip/refZlib)",
 "C08": "standard library writers produce half of the members",
 "C09": "none beyond determinism of the generators",
 "C10": "strict reference inflater + standard library readers",
 "C11": "the gate's over-demand event models a blocking source; io.Reader semantics assumed for what a real source would do next",
 "C12": "fresh Writer of the same constructor as the reference",
 "C13": "fresh Reader on an identical source as the reference",
 "C14": "in-process failing io.Writer; red zones only around the Writer's own slices",
 "C15": "in-process failing io.Reader",
 "C16": "the standard library Writer of the same kind/level is the model for error-ness and emissions after Close",
 "C17": "race detector does not see assembly accesses",
 "C18": "hook H1 forces the dispatch level; children log the level in effect (H2)",
 "C19": "reference inflater's distance trace",
 "C20": "none",
}
checks = []
for pid in sorted(rows):
    cat, tech, text, ref = rows[pid]
    checks.append({
        "property_id": pid,
        "quick_cmd": f"./check {pid} quick",
        "thorough_cmd": f"./check {pid} thorough",
        "evidence_file": f"/verif/evidence/{pid}.json",
        "replay_cmd_template": f"./check {pid} --replay {{path}}",
        "engine": "fgmon",
        "level_claimed": {"category": cat, "text": text, "design_ref": "DESIGN.md §" + ref},
        "level_note": notes[pid],
        "technique": "runtime monitoring: " + tech,
    })
commits = subprocess.check_output(["git", "-C", "/repo", "log", "--format=%H %s"]).decode().splitlines()
hooks = [l.split()[0] for l in commits if " verif hook:" in l]
m = {
 "version": 1,
 "setup_cmd": "./setup.sh",
 "hooks": {
  "guard": "verif",
  "enable": "go build -tags verif (the harness module /verif/harness replaces github.com/intel/fastgo by /repo, so every check builds /repo's working tree with the tag on)",
  "baseline_off_cmd": "cd /repo && GOFLAGS=-mod=mod GOPROXY=off go test -vet=off -count=1 -timeout 25m ./...",
  "source_commits": hooks,
  "add_only": True,
 },
 "engines": [{"name": "fgmon", "path": "harness/cmd/fgmon", "serves_properties": sorted(rows),
   "kind_free_text": "runtime monitors over executions of the real code: one child process per forced dispatch level x shard with a case-begin/case-end event log, differential and trace oracles, offline checkers over joined logs, Go race detector / checkptr / asan build flavours"}],
 "checks": checks,
 "not_applicable": [],
 "notes": "Every check: ./check <id> quick|thorough; VERIF_SEED selects the seed-dependent part of the fixed-length case list; exit 0 held / 1 VIOLATION (replay file under /verif/replays) / 3 INCONCLUSIVE. Listed findings: /verif/known_findings.json. Control run against the standard library: ./check <id> control.",
}
json.dump(m, open(os.path.join(V, "MANIFEST.json"), "w"), indent=1)
print("wrote MANIFEST.json with", len(checks), "checks")
