#!/usr/bin/env python3
"""Rewrites the section of DESIGN.md between the SEEDED-TABLE markers from seeded/*/meta.json
(and seeded/MATRIX.txt when present)."""
import json, glob, os, re
V = os.path.dirname(os.path.dirname(os.path.abspath(__file__)))
matrix = {}
mp = os.path.join(V, 'seeded', 'MATRIX.txt')
if os.path.exists(mp):
    for l in open(mp):
        if ':' in l:
            n, r = l.split(':', 1)
            matrix[n.strip()] = r.split()
rows = []
for d in sorted(glob.glob(os.path.join(V, 'seeded', '*', 'meta.json'))):
    n = os.path.basename(os.path.dirname(d))
    m = json.load(open(d))
    own = ' '.join(m.get('caught_by', [])) or '—'
    allc = ' '.join(matrix.get(n, [])) if n in matrix else ''
    sig = ''
    if m.get('first_signatures'):
        s = m['first_signatures'][0]
        k = s.find('signature:')
        sig = s[k + 10:].split('signature:')[0].strip() if k >= 0 else ''
    note = m.get('strengthened', '')
    rows.append((n, m['breaks_property'], m['needs_to_manifest'], own, allc, sig, note))
out = ['| change | property | needs, to manifest | caught by its property\'s quick check (first signature) | all quick checks that fire | note |', '|---|---|---|---|---|---|']
for n, p, needs, own, allc, sig, note in rows:
    out.append('| `%s` | %s | %s | %s `%s` | %s | %s |' % (n, p, needs.replace('|', '\\|'), own, sig.replace('|', '\\|'), allc, note))
txt = '\n'.join(out)
p = os.path.join(V, 'DESIGN.md')
s = open(p).read()
a, b = '<!-- SEEDED-TABLE-BEGIN -->', '<!-- SEEDED-TABLE-END -->'
if a in s:
    s = s[:s.index(a) + len(a)] + '\n' + txt + '\n' + s[s.index(b):]
else:
    s += '\n' + a + '\n' + txt + '\n' + b + '\n'
open(p, 'w').write(s)
print(len(rows), 'rows')
