package impl

import (
	fastgo "github.com/intel/fastgo"
	fgzip "github.com/intel/fastgo/compress/gzip"
	fzlib "github.com/intel/fastgo/compress/zlib"
)

// The harness is always built with -tags verif (hooks H1..H4).

func ArchLevel() int     { return fastgo.VerifArchLevel() }
func DetectedLevel() int { return fastgo.VerifDetectedLevel() }

func (w fgFlateW) InstallGuards() int { return w.Writer.VerifInstallGuards() }
func (w fgFlateW) CheckGuards() error { return w.Writer.VerifCheckGuards() }
func (w fgFlateW) DropGuards()        { w.Writer.VerifDropGuards() }

// gzip/zlib create their inner flate Writer lazily; InstallGuards is a no-op
// until it exists and can be called again after any operation.
func (w fgGzipW) InstallGuards() int {
	c := fgzip.VerifCompressor(w.Writer)
	if c == nil {
		return 0
	}
	if guardKnown(c) {
		return 0
	}
	markGuard(c)
	return c.VerifInstallGuards()
}
func (w fgGzipW) CheckGuards() error {
	c := fgzip.VerifCompressor(w.Writer)
	if c == nil {
		return nil
	}
	return c.VerifCheckGuards()
}
func (w fgGzipW) DropGuards() {
	if c := fgzip.VerifCompressor(w.Writer); c != nil {
		c.VerifDropGuards()
		unmarkGuard(c)
	}
}

func (w fgZlibW) InstallGuards() int {
	c := fzlib.VerifCompressor(w.Writer)
	if c == nil {
		return 0
	}
	if guardKnown(c) {
		return 0
	}
	markGuard(c)
	return c.VerifInstallGuards()
}
func (w fgZlibW) CheckGuards() error {
	c := fzlib.VerifCompressor(w.Writer)
	if c == nil {
		return nil
	}
	return c.VerifCheckGuards()
}
func (w fgZlibW) DropGuards() {
	if c := fzlib.VerifCompressor(w.Writer); c != nil {
		c.VerifDropGuards()
		unmarkGuard(c)
	}
}
