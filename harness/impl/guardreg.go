package impl

import "sync"

var (
	guardMu  sync.Mutex
	guardSet = map[interface{}]bool{}
)

func guardKnown(k interface{}) bool {
	guardMu.Lock()
	defer guardMu.Unlock()
	return guardSet[k]
}
func markGuard(k interface{}) {
	guardMu.Lock()
	guardSet[k] = true
	guardMu.Unlock()
}
func unmarkGuard(k interface{}) {
	guardMu.Lock()
	delete(guardSet, k)
	guardMu.Unlock()
}
