// Package impl puts fastgo's and the standard library's flate/gzip/zlib behind
// one set of interfaces, so that every differential monitor can also be run
// with the standard library in fastgo's place (control run, §3.12 of DESIGN.md).
package impl

import (
	"io"
	"time"

	sflate "compress/flate"
	sgzip "compress/gzip"
	szlib "compress/zlib"

	fflate "github.com/intel/fastgo/compress/flate"
	fgzip "github.com/intel/fastgo/compress/gzip"
	fzlib "github.com/intel/fastgo/compress/zlib"
)

// Writer is the call surface shared by all six writer kinds.
type Writer interface {
	Write(p []byte) (int, error)
	Flush() error
	Close() error
	Reset(w io.Writer)
}

// Guarded is implemented by writers whose buffers carry red zones (hook H3).
type Guarded interface {
	InstallGuards() int
	CheckGuards() error
	DropGuards()
}

// Header mirrors gzip.Header.
type Header struct {
	Comment string
	Extra   []byte
	ModTime time.Time
	Name    string
	OS      byte
}

type GzipWriter interface {
	Writer
	SetHeader(h Header)
}

type GzipReader interface {
	io.Reader
	Close() error
	Reset(r io.Reader) error
	Multistream(ok bool)
	Header() Header
}

type ZlibReader interface {
	io.ReadCloser
	Reset(r io.Reader, dict []byte) error
}

type FlateReader interface {
	io.ReadCloser
	Reset(r io.Reader, dict []byte) error
}

// API is one implementation of the three packages.
type API struct {
	Name string

	NewFlateWriter     func(w io.Writer, level int) (Writer, error)
	NewFlateWriter4K   func(w io.Writer, level int) (Writer, error) // nil for stdlib
	NewFlateWriterDict func(w io.Writer, level int, dict []byte) (Writer, error)
	NewFlateReader     func(r io.Reader) FlateReader
	NewFlateReaderDict func(r io.Reader, dict []byte) FlateReader

	NewGzipWriter      func(w io.Writer) GzipWriter
	NewGzipWriterLevel func(w io.Writer, level int) (GzipWriter, error)
	NewGzipReader      func(r io.Reader) (GzipReader, error)

	NewZlibWriter          func(w io.Writer) Writer
	NewZlibWriterLevel     func(w io.Writer, level int) (Writer, error)
	NewZlibWriterLevelDict func(w io.Writer, level int, dict []byte) (Writer, error)
	NewZlibReader          func(r io.Reader) (ZlibReader, error)
	NewZlibReaderDict      func(r io.Reader, dict []byte) (ZlibReader, error)

	// zero-value Writers (var z gzip.Writer), to be armed with Reset
	ZeroGzipWriter func() GzipWriter
	ZeroZlibWriter func() Writer
}

// ---- fastgo ----

type fgFlateW struct{ *fflate.Writer }

type fgGzipW struct{ *fgzip.Writer }

func (w fgGzipW) SetHeader(h Header) {
	w.Writer.Header = fgzip.Header{Comment: h.Comment, Extra: h.Extra, ModTime: h.ModTime, Name: h.Name, OS: h.OS}
}

type fgZlibW struct{ *fzlib.Writer }

type fgGzipR struct{ *fgzip.Reader }

func (r fgGzipR) Header() Header {
	h := r.Reader.Header
	return Header{Comment: h.Comment, Extra: h.Extra, ModTime: h.ModTime, Name: h.Name, OS: h.OS}
}

type zr struct {
	io.ReadCloser
}

func (z zr) Reset(r io.Reader, dict []byte) error {
	return z.ReadCloser.(szlib.Resetter).Reset(r, dict)
}

type fr struct {
	io.ReadCloser
}

func (f fr) Reset(r io.Reader, dict []byte) error {
	return f.ReadCloser.(sflate.Resetter).Reset(r, dict)
}

func wrapFW(w *fflate.Writer, err error) (Writer, error) {
	if err != nil || w == nil {
		return nil, err
	}
	return fgFlateW{w}, nil
}

var Fastgo = &API{
	Name: "fastgo",
	NewFlateWriter: func(w io.Writer, level int) (Writer, error) {
		return wrapFW(fflate.NewWriter(w, level))
	},
	NewFlateWriter4K: func(w io.Writer, level int) (Writer, error) {
		return wrapFW(fflate.NewWriterwWith4KWindow(w, level))
	},
	NewFlateWriterDict: func(w io.Writer, level int, dict []byte) (Writer, error) {
		return wrapFW(fflate.NewWriterDict(w, level, dict))
	},
	NewFlateReader:     func(r io.Reader) FlateReader { return fr{fflate.NewReader(r)} },
	NewFlateReaderDict: func(r io.Reader, dict []byte) FlateReader { return fr{fflate.NewReaderDict(r, dict)} },
	NewGzipWriter:      func(w io.Writer) GzipWriter { return fgGzipW{fgzip.NewWriter(w)} },
	NewGzipWriterLevel: func(w io.Writer, level int) (GzipWriter, error) {
		z, err := fgzip.NewWriterLevel(w, level)
		if err != nil || z == nil {
			return nil, err
		}
		return fgGzipW{z}, nil
	},
	NewGzipReader: func(r io.Reader) (GzipReader, error) {
		z, err := fgzip.NewReader(r)
		if err != nil {
			return nil, err
		}
		return fgGzipR{z}, nil
	},
	ZeroGzipWriter: func() GzipWriter { return fgGzipW{new(fgzip.Writer)} },
	ZeroZlibWriter: func() Writer { return fgZlibW{new(fzlib.Writer)} },
	NewZlibWriter:  func(w io.Writer) Writer { return fgZlibW{fzlib.NewWriter(w)} },
	NewZlibWriterLevel: func(w io.Writer, level int) (Writer, error) {
		z, err := fzlib.NewWriterLevel(w, level)
		if err != nil || z == nil {
			return nil, err
		}
		return fgZlibW{z}, nil
	},
	NewZlibWriterLevelDict: func(w io.Writer, level int, dict []byte) (Writer, error) {
		z, err := fzlib.NewWriterLevelDict(w, level, dict)
		if err != nil || z == nil {
			return nil, err
		}
		return fgZlibW{z}, nil
	},
	NewZlibReader: func(r io.Reader) (ZlibReader, error) {
		z, err := fzlib.NewReader(r)
		if err != nil {
			return nil, err
		}
		return zr{z}, nil
	},
	NewZlibReaderDict: func(r io.Reader, dict []byte) (ZlibReader, error) {
		z, err := fzlib.NewReaderDict(r, dict)
		if err != nil {
			return nil, err
		}
		return zr{z}, nil
	},
}

// ---- standard library ----

type sdGzipW struct{ *sgzip.Writer }

func (w sdGzipW) SetHeader(h Header) {
	w.Writer.Header = sgzip.Header{Comment: h.Comment, Extra: h.Extra, ModTime: h.ModTime, Name: h.Name, OS: h.OS}
}

type sdGzipR struct{ *sgzip.Reader }

func (r sdGzipR) Header() Header {
	h := r.Reader.Header
	return Header{Comment: h.Comment, Extra: h.Extra, ModTime: h.ModTime, Name: h.Name, OS: h.OS}
}

func wrapSW(w *sflate.Writer, err error) (Writer, error) {
	if err != nil || w == nil {
		return nil, err
	}
	return w, nil
}

var Stdlib = &API{
	Name: "stdlib",
	NewFlateWriter: func(w io.Writer, level int) (Writer, error) {
		return wrapSW(sflate.NewWriter(w, level))
	},
	NewFlateWriterDict: func(w io.Writer, level int, dict []byte) (Writer, error) {
		return wrapSW(sflate.NewWriterDict(w, level, dict))
	},
	NewFlateReader:     func(r io.Reader) FlateReader { return fr{sflate.NewReader(r)} },
	NewFlateReaderDict: func(r io.Reader, dict []byte) FlateReader { return fr{sflate.NewReaderDict(r, dict)} },
	NewGzipWriter:      func(w io.Writer) GzipWriter { return sdGzipW{sgzip.NewWriter(w)} },
	NewGzipWriterLevel: func(w io.Writer, level int) (GzipWriter, error) {
		z, err := sgzip.NewWriterLevel(w, level)
		if err != nil || z == nil {
			return nil, err
		}
		return sdGzipW{z}, nil
	},
	NewGzipReader: func(r io.Reader) (GzipReader, error) {
		z, err := sgzip.NewReader(r)
		if err != nil {
			return nil, err
		}
		return sdGzipR{z}, nil
	},
	ZeroGzipWriter: func() GzipWriter { return sdGzipW{new(sgzip.Writer)} },
	ZeroZlibWriter: func() Writer { return new(szlib.Writer) },
	NewZlibWriter:  func(w io.Writer) Writer { return szlib.NewWriter(w) },
	NewZlibWriterLevel: func(w io.Writer, level int) (Writer, error) {
		z, err := szlib.NewWriterLevel(w, level)
		if err != nil || z == nil {
			return nil, err
		}
		return z, nil
	},
	NewZlibWriterLevelDict: func(w io.Writer, level int, dict []byte) (Writer, error) {
		z, err := szlib.NewWriterLevelDict(w, level, dict)
		if err != nil || z == nil {
			return nil, err
		}
		return z, nil
	},
	NewZlibReader: func(r io.Reader) (ZlibReader, error) {
		z, err := szlib.NewReader(r)
		if err != nil {
			return nil, err
		}
		return zr{z}, nil
	},
	NewZlibReaderDict: func(r io.Reader, dict []byte) (ZlibReader, error) {
		z, err := szlib.NewReaderDict(r, dict)
		if err != nil {
			return nil, err
		}
		return zr{z}, nil
	},
}

// ErrClass classifies an error from any of the readers into a small set of
// kinds shared by fastgo and the standard library.
func ErrClass(err error) string {
	switch {
	case err == nil:
		return "nil"
	case err == io.EOF:
		return "EOF"
	case err == io.ErrUnexpectedEOF:
		return "UnexpectedEOF"
	case err == sgzip.ErrChecksum || err == fgzip.ErrChecksum:
		return "gzip.ErrChecksum"
	case err == sgzip.ErrHeader || err == fgzip.ErrHeader:
		return "gzip.ErrHeader"
	case err == szlib.ErrChecksum || err == fzlib.ErrChecksum:
		return "zlib.ErrChecksum"
	case err == szlib.ErrHeader || err == fzlib.ErrHeader:
		return "zlib.ErrHeader"
	case err == szlib.ErrDictionary || err == fzlib.ErrDictionary:
		return "zlib.ErrDictionary"
	}
	if _, ok := err.(sflate.CorruptInputError); ok {
		return "Corrupt"
	}
	if _, ok := err.(sflate.InternalError); ok {
		return "Internal"
	}
	return "other:" + err.Error()
}
