// Package refinf is the harness's independent reference inflater, written from
// RFC 1951 in the style of zlib's contrib/puff: bit-serial input, canonical
// codes decoded by counting per length, output in one growing slice. It shares
// no code or data structure with fastgo or with compress/flate, and it records
// a trace (block structure, distances) that neither of those expose.
package refinf

import "fmt"

type Status int

const (
	Complete Status = iota // final block fully decoded
	NeedMore               // input ran out
	Corrupt                // malformed for every reader (permissive) / for zlib-like readers (strict)
)

func (s Status) String() string {
	switch s {
	case Complete:
		return "complete"
	case NeedMore:
		return "need-more-input"
	}
	return "corrupt"
}

// Reason codes for Corrupt.
const (
	RReservedBlock  = "reserved-block-type"
	RStoredLen      = "stored-len-nlen-mismatch"
	RTooManyLit     = "hlit-out-of-range"
	RTooManyDist    = "hdist-out-of-range"
	ROverSubCL      = "oversubscribed-codelen-code"
	ROverSubLit     = "oversubscribed-litlen-code"
	ROverSubDist    = "oversubscribed-dist-code"
	RIncompleteCL   = "incomplete-codelen-code"
	RIncompleteLit  = "incomplete-litlen-code"
	RIncompleteDist = "incomplete-dist-code"
	RRepeatNoPrev   = "repeat-without-previous-length"
	RRunPastCount   = "run-past-declared-count"
	RNoEOB          = "no-end-of-block-code"
	RUnassignedCL   = "unassigned-codelen-code-used"
	RUnassignedLit  = "unassigned-litlen-code-used"
	RUnassignedDist = "unassigned-dist-code-used"
	RBadLenSym      = "length-symbol-286-287"
	RBadDistSym     = "distance-symbol-30-31"
	RDistTooFar     = "distance-beyond-output"
	RDistBeyondWin  = "distance-beyond-window"
	ROutputLimit    = "output-limit"
)

type Block struct {
	Type           int   // 0 stored, 1 fixed, 2 dynamic
	BitOff         int64 // bit offset of the 3 header bits
	Final          bool
	HLIT           int
	HDIST          int
	HCLEN          int
	MaxLitBits     int
	MaxDistBits    int
	MaxCLBits      int
	LitCodes       int // number of lit/len symbols with a code
	DistCodes      int // number of distance symbols with a code
	LitIncomplete  bool
	DistIncomplete bool
	CLIncomplete   bool
	CrossRun       bool // a repeat run crossed the literal/distance boundary
	HeaderBits     int64
	Literals       int
	Matches        int
	MaxLen         int
	MaxDist        int
	StoredLen      int
	Done           bool // block decoded to its end
}

type Result struct {
	Out    []byte // without the dictionary
	Status Status
	Reason string
	// EndBit: for Complete, the bit just after the final block; otherwise the
	// bit position at which decoding stopped.
	EndBit int64
	// AtBoundary: for NeedMore, input ran out exactly between blocks (no bit of
	// a next header was consumed).
	AtBoundary                bool
	Blocks                    []Block // first MaxBlocksKept blocks
	NBlocks                   int
	NStored, NFixed, NDynamic int
	SawFinal                  bool
	MaxDist                   int
	MaxLen                    int
	Literals                  int
	Matches                   int
	// DistHist[k]: matches with distance in (2^(k-1), 2^k]
	DistHist [17]int
	// IntoDict: some match reached into the preset dictionary
	IntoDict bool
	MarkBits []int64
}

// EndByte is the number of whole input bytes the stream occupies.
func (r *Result) EndByte() int64 { return (r.EndBit + 7) / 8 }

type Options struct {
	// Strict rejects incomplete codes the way zlib and compress/flate do: a
	// code must be complete unless it consists of a single code of length one
	// (or, for distances, is empty).
	Strict bool
	Dict   []byte
	// Window > 0 rejects any distance beyond it.
	Window int
	// MaxOut > 0 stops (Corrupt/output-limit) beyond that many bytes.
	MaxOut int
	// KeepBlocks bounds the number of per-block traces kept (default 64).
	KeepBlocks int
	// Marks: ascending output offsets; Result.MarkBits[i] is the input bit
	// position just after the symbol (or stored byte) that made the output
	// reach Marks[i].
	Marks []int
}

type errStop struct {
	st     Status
	reason string
}

type state struct {
	in       []byte
	pos      int64 // next bit
	out      []byte
	dictN    int
	opt      Options
	res      *Result
	cur      *Block
	nextMark int
}

func (s *state) mark() {
	for s.nextMark < len(s.opt.Marks) && len(s.out)-s.dictN >= s.opt.Marks[s.nextMark] {
		s.res.MarkBits = append(s.res.MarkBits, s.pos)
		s.nextMark++
	}
}

func (s *state) bit() int {
	if s.pos>>3 >= int64(len(s.in)) {
		panic(errStop{NeedMore, ""})
	}
	b := int(s.in[s.pos>>3]>>(uint(s.pos)&7)) & 1
	s.pos++
	return b
}

func (s *state) bits(n int) int {
	v := 0
	for i := 0; i < n; i++ {
		v |= s.bit() << uint(i)
	}
	return v
}

type huff struct {
	count  [16]int
	symbol []int
	n      int // symbols with code
	maxLen int
	left   int // >0 incomplete, <0 over-subscribed, 0 complete
}

func construct(lengths []int) *huff {
	h := &huff{symbol: make([]int, len(lengths))}
	for _, l := range lengths {
		h.count[l]++
	}
	h.n = len(lengths) - h.count[0]
	left := 1
	for l := 1; l <= 15; l++ {
		left <<= 1
		left -= h.count[l]
		if left < 0 {
			h.left = left
			return h
		}
		if h.count[l] > 0 {
			h.maxLen = l
		}
	}
	h.left = left
	var offs [16]int
	for l := 1; l < 15; l++ {
		offs[l+1] = offs[l] + h.count[l]
	}
	for sym, l := range lengths {
		if l != 0 {
			h.symbol[offs[l]] = sym
			offs[l]++
		}
	}
	return h
}

// decode returns the symbol or -1 when the bits read form no assigned code.
func (s *state) decode(h *huff) int {
	code, first, index := 0, 0, 0
	for l := 1; l <= h.maxLen; l++ {
		code |= s.bit()
		c := h.count[l]
		if code-c < first {
			return h.symbol[index+(code-first)]
		}
		index += c
		first += c
		first <<= 1
		code <<= 1
	}
	return -1
}

var (
	lenBase   = [29]int{3, 4, 5, 6, 7, 8, 9, 10, 11, 13, 15, 17, 19, 23, 27, 31, 35, 43, 51, 59, 67, 83, 99, 115, 131, 163, 195, 227, 258}
	lenExtra  = [29]int{0, 0, 0, 0, 0, 0, 0, 0, 1, 1, 1, 1, 2, 2, 2, 2, 3, 3, 3, 3, 4, 4, 4, 4, 5, 5, 5, 5, 0}
	distBase  = [30]int{1, 2, 3, 4, 5, 7, 9, 13, 17, 25, 33, 49, 65, 97, 129, 193, 257, 385, 513, 769, 1025, 1537, 2049, 3073, 4097, 6145, 8193, 12289, 16385, 24577}
	distExtra = [30]int{0, 0, 0, 0, 1, 1, 2, 2, 3, 3, 4, 4, 5, 5, 6, 6, 7, 7, 8, 8, 9, 9, 10, 10, 11, 11, 12, 12, 13, 13}
	clOrder   = [19]int{16, 17, 18, 0, 8, 7, 9, 6, 10, 5, 11, 4, 12, 3, 13, 2, 14, 1, 15}
)

func corrupt(reason string) { panic(errStop{Corrupt, reason}) }

// allowed decides whether a code with the given slack may be used.
func (s *state) allowed(h *huff, kind string) bool {
	if h.left == 0 {
		return true
	}
	if !s.opt.Strict {
		return true
	}
	// strict: single code of length one is tolerated (zlib, compress/flate);
	// an empty distance code too (all-literal block).
	if h.n == 1 && h.count[1] == 1 {
		return true
	}
	if kind == "dist" && h.n == 0 {
		return true
	}
	if kind == "lit" && h.n == 0 {
		return true // compress/flate accepts the header; the block then fails on first use
	}
	return false
}

func (s *state) codes(lit, dist *huff) {
	b := s.cur
	for {
		sym := s.decode(lit)
		if sym < 0 {
			corrupt(RUnassignedLit)
		}
		if sym < 256 {
			if s.opt.MaxOut > 0 && len(s.out)-s.dictN >= s.opt.MaxOut {
				corrupt(ROutputLimit)
			}
			s.out = append(s.out, byte(sym))
			b.Literals++
			s.res.Literals++
			if s.opt.Marks != nil {
				s.mark()
			}
			continue
		}
		if sym == 256 {
			return
		}
		sym -= 257
		if sym >= 29 {
			corrupt(RBadLenSym)
		}
		length := lenBase[sym] + s.bits(lenExtra[sym])
		ds := s.decode(dist)
		if ds < 0 {
			corrupt(RUnassignedDist)
		}
		if ds >= 30 {
			corrupt(RBadDistSym)
		}
		d := distBase[ds] + s.bits(distExtra[ds])
		if d > len(s.out) {
			corrupt(RDistTooFar)
		}
		if s.opt.Window > 0 && d > s.opt.Window {
			corrupt(RDistBeyondWin)
		}
		if s.opt.MaxOut > 0 && len(s.out)-s.dictN+length > s.opt.MaxOut {
			corrupt(ROutputLimit)
		}
		if d > len(s.out)-s.dictN {
			s.res.IntoDict = true
		}
		for i := 0; i < length; i++ {
			s.out = append(s.out, s.out[len(s.out)-d])
		}
		b.Matches++
		s.res.Matches++
		if s.opt.Marks != nil {
			s.mark()
		}
		if length > b.MaxLen {
			b.MaxLen = length
		}
		if d > b.MaxDist {
			b.MaxDist = d
		}
		if d > s.res.MaxDist {
			s.res.MaxDist = d
		}
		if length > s.res.MaxLen {
			s.res.MaxLen = length
		}
		k := 0
		for (1 << uint(k)) < d {
			k++
		}
		s.res.DistHist[k]++
	}
}

var fixedLit, fixedDist *huff

func init() {
	l := make([]int, 288)
	for i := range l {
		switch {
		case i < 144:
			l[i] = 8
		case i < 256:
			l[i] = 9
		case i < 280:
			l[i] = 7
		default:
			l[i] = 8
		}
	}
	fixedLit = construct(l)
	d := make([]int, 30)
	for i := range d {
		d[i] = 5
	}
	fixedDist = construct(d)
}

func (s *state) stored() {
	// skip to byte boundary
	s.pos = (s.pos + 7) &^ 7
	n := s.bits(16)
	nn := s.bits(16)
	if n != (^nn)&0xffff {
		corrupt(RStoredLen)
	}
	s.cur.StoredLen = n
	for i := 0; i < n; i++ {
		if s.pos>>3 >= int64(len(s.in)) {
			panic(errStop{NeedMore, ""})
		}
		if s.opt.MaxOut > 0 && len(s.out)-s.dictN >= s.opt.MaxOut {
			corrupt(ROutputLimit)
		}
		s.out = append(s.out, s.in[s.pos>>3])
		s.pos += 8
		if s.opt.Marks != nil {
			s.mark()
		}
	}
}

func (s *state) dynamic() {
	b := s.cur
	start := s.pos
	nlen := s.bits(5) + 257
	ndist := s.bits(5) + 1
	ncode := s.bits(4) + 4
	b.HLIT, b.HDIST, b.HCLEN = nlen-257, ndist-1, ncode-4
	if nlen > 286 {
		corrupt(RTooManyLit)
	}
	if ndist > 30 {
		corrupt(RTooManyDist)
	}
	var cl [19]int
	for i := 0; i < ncode; i++ {
		cl[clOrder[i]] = s.bits(3)
	}
	clh := construct(cl[:])
	b.MaxCLBits = clh.maxLen
	if clh.left < 0 {
		corrupt(ROverSubCL)
	}
	if clh.left > 0 {
		b.CLIncomplete = true
		if !s.allowed(clh, "cl") {
			corrupt(RIncompleteCL)
		}
	}
	lengths := make([]int, nlen+ndist)
	idx := 0
	for idx < nlen+ndist {
		sym := s.decode(clh)
		if sym < 0 {
			corrupt(RUnassignedCL)
		}
		if sym < 16 {
			lengths[idx] = sym
			idx++
			continue
		}
		rep, val := 0, 0
		switch sym {
		case 16:
			if idx == 0 {
				corrupt(RRepeatNoPrev)
			}
			val = lengths[idx-1]
			rep = 3 + s.bits(2)
		case 17:
			rep = 3 + s.bits(3)
		default:
			rep = 11 + s.bits(7)
		}
		if idx+rep > nlen+ndist {
			corrupt(RRunPastCount)
		}
		if idx < nlen && idx+rep > nlen {
			b.CrossRun = true
		}
		for ; rep > 0; rep-- {
			lengths[idx] = val
			idx++
		}
	}
	b.HeaderBits = s.pos - start
	lit := construct(lengths[:nlen])
	dist := construct(lengths[nlen:])
	b.MaxLitBits, b.MaxDistBits = lit.maxLen, dist.maxLen
	b.LitCodes, b.DistCodes = lit.n, dist.n
	if lit.left < 0 {
		corrupt(ROverSubLit)
	}
	if dist.left < 0 {
		corrupt(ROverSubDist)
	}
	if lit.left > 0 {
		b.LitIncomplete = true
		if !s.allowed(lit, "lit") {
			corrupt(RIncompleteLit)
		}
	}
	if dist.left > 0 {
		b.DistIncomplete = true
		if !s.allowed(dist, "dist") {
			corrupt(RIncompleteDist)
		}
	}
	if s.opt.Strict && lengths[256] == 0 {
		// zlib rejects this header outright; compress/flate fails at first use.
		// Strict mode is only used on streams the harness expects to be valid,
		// where both agree that such a block cannot be completed.
		corrupt(RNoEOB)
	}
	s.codes(lit, dist)
}

// Inflate decodes one DEFLATE stream from the start of in.
func Inflate(in []byte, opt Options) (res *Result) {
	if opt.KeepBlocks == 0 {
		opt.KeepBlocks = 64
	}
	res = &Result{}
	s := &state{in: in, opt: opt, res: res}
	if len(opt.Dict) > 0 {
		s.out = append(s.out, opt.Dict...)
		s.dictN = len(opt.Dict)
	}
	var blk Block
	boundary := true
	defer func() {
		if r := recover(); r != nil {
			e, ok := r.(errStop)
			if !ok {
				panic(r)
			}
			res.Status = e.st
			res.Reason = e.reason
			res.EndBit = s.pos
			res.AtBoundary = boundary && e.st == NeedMore
			if s.cur != nil && len(res.Blocks) < opt.KeepBlocks {
				res.Blocks = append(res.Blocks, *s.cur)
			}
			res.Out = s.out[s.dictN:]
		}
	}()
	for {
		boundary = true
		blk = Block{BitOff: s.pos}
		s.cur = nil
		if s.pos>>3 >= int64(len(in)) {
			panic(errStop{NeedMore, ""})
		}
		final := s.bit()
		boundary = false
		s.cur = &blk
		res.NBlocks++
		blk.Final = final == 1
		typ := s.bits(2)
		blk.Type = typ
		switch typ {
		case 0:
			res.NStored++
			s.stored()
		case 1:
			res.NFixed++
			blk.MaxLitBits, blk.MaxDistBits = 9, 5
			blk.LitCodes, blk.DistCodes = 288, 30
			s.codes(fixedLit, fixedDist)
		case 2:
			res.NDynamic++
			s.dynamic()
		default:
			corrupt(RReservedBlock)
		}
		blk.Done = true
		if len(res.Blocks) < opt.KeepBlocks {
			res.Blocks = append(res.Blocks, blk)
		}
		s.cur = nil
		if final == 1 {
			res.SawFinal = true
			break
		}
	}
	res.Status = Complete
	res.EndBit = s.pos
	res.Out = s.out[s.dictN:]
	return res
}

func (r *Result) String() string {
	return fmt.Sprintf("%s%s out=%d endbit=%d blocks=%d(s%d f%d d%d) maxdist=%d",
		r.Status, map[bool]string{true: "(" + r.Reason + ")", false: ""}[r.Reason != ""],
		len(r.Out), r.EndBit, r.NBlocks, r.NStored, r.NFixed, r.NDynamic, r.MaxDist)
}
