package synth

import (
	"bytes"
	"compress/flate"
	"io"
	"testing"

	"fgverif/gen"
	"fgverif/refinf"
)

func TestRandomValid(t *testing.T) {
	shapes := map[int]int{}
	for i := 0; i < 3000; i++ {
		r := gen.For(1, "synthtest", i)
		st, plain, desc := RandomValid(r, 70000)
		got, err := io.ReadAll(flate.NewReader(bytes.NewReader(st)))
		if err != nil || !bytes.Equal(got, plain) {
			t.Fatalf("case %d: stdlib err=%v len(got)=%d len(plain)=%d desc=%s", i, err, len(got), len(plain), desc)
		}
		for _, strict := range []bool{true, false} {
			res := refinf.Inflate(st, refinf.Options{Strict: strict})
			if res.Status != refinf.Complete || !bytes.Equal(res.Out, plain) || res.EndByte() != int64(len(st)) {
				t.Fatalf("case %d strict=%v: ref %s len(st)=%d desc=%s", i, strict, res, len(st), desc)
			}
			for _, b := range res.Blocks {
				shapes[b.MaxLitBits]++
			}
		}
	}
	t.Logf("max lit bits histogram: %v", shapes)
}

func TestFaulty(t *testing.T) {
	acc := map[string]int{}
	for i := 0; i < 4000; i++ {
		r := gen.For(1, "faulttest", i)
		f := Faults[i%len(Faults)]
		st, _, desc := Faulty(r, f, r.Pick(0, 0, 1, 3))
		st = append(st, make([]byte, 40)...)
		_, err := io.ReadAll(flate.NewReader(bytes.NewReader(st)))
		res := refinf.Inflate(st, refinf.Options{})
		if err == nil && res.Status != refinf.Complete {
			t.Fatalf("case %d: stdlib accepts, permissive ref %s: %s", i, res, desc)
		}
		if err == nil {
			acc[f+":stdlib-accepts"]++
		}
		if res.Status == refinf.Complete {
			acc[f+":ref-accepts"]++
		} else {
			acc[f+":"+res.Reason]++
		}
	}
	for k, v := range acc {
		t.Logf("%s %d", k, v)
	}
}
