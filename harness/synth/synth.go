// Package synth builds DEFLATE streams block by block from a seeded description,
// so that corners of the format no encoder at hand emits are reached (15-bit
// codes, long-code sub-tables, degenerate trees, repeat runs crossing the
// literal/distance boundary, stored blocks at every bit offset), and injects
// single, named faults into otherwise valid streams.
package synth

import (
	"fmt"
	"sort"

	"fgverif/gen"
)

// BitWriter packs bits LSB-first as RFC 1951 prescribes.
type BitWriter struct {
	buf []byte
	n   int64 // bits written
}

func (w *BitWriter) Bits(v uint32, n int) {
	for i := 0; i < n; i++ {
		if w.n&7 == 0 {
			w.buf = append(w.buf, 0)
		}
		if v>>uint(i)&1 == 1 {
			w.buf[w.n>>3] |= 1 << uint(w.n&7)
		}
		w.n++
	}
}

// Code writes a Huffman code (given MSB-first as in the RFC) of n bits.
func (w *BitWriter) Code(code uint32, n int) {
	for i := n - 1; i >= 0; i-- {
		w.Bits(code>>uint(i)&1, 1)
	}
}

func (w *BitWriter) Align() {
	for w.n&7 != 0 {
		w.Bits(0, 1)
	}
}

func (w *BitWriter) BitLen() int64 { return w.n }
func (w *BitWriter) Bytes() []byte { return w.buf }

// Canonical assigns canonical codes to lengths (0 = no code).
func Canonical(lengths []int) []uint32 {
	var count [17]int
	for _, l := range lengths {
		count[l]++
	}
	count[0] = 0
	var next [17]uint32
	code := uint32(0)
	for b := 1; b <= 16; b++ {
		code = (code + uint32(count[b-1])) << 1
		next[b] = code
	}
	out := make([]uint32, len(lengths))
	for i, l := range lengths {
		if l != 0 {
			out[i] = next[l]
			next[l]++
		}
	}
	return out
}

// Kraft returns sum 2^(15-l) over non-zero lengths; complete iff == 1<<15.
func Kraft(lengths []int) int {
	k := 0
	for _, l := range lengths {
		if l > 0 {
			k += 1 << uint(15-l)
		}
	}
	return k
}

// TreeShape draws depths of a complete binary code with n leaves and maximum
// depth max. strategy: "deep" (a chain: 1,2,3,…), "flat", "random".
// n==1 gives the single code of length one. n==0 gives nothing.
func TreeShape(r *gen.Rand, n, max int, strategy string) []int {
	if n == 0 {
		return nil
	}
	if n == 1 {
		return []int{1}
	}
	if n > 1<<uint(max) {
		panic("synth: too many symbols for max depth")
	}
	leaves := []int{1, 1}
	for len(leaves) < n {
		// candidates with depth < max
		best := -1
		switch strategy {
		case "deep":
			for i, d := range leaves {
				if d < max && (best < 0 || d > leaves[best]) {
					best = i
				}
			}
		case "flat":
			for i, d := range leaves {
				if d < max && (best < 0 || d < leaves[best]) {
					best = i
				}
			}
		default:
			// random among splittable; bias to deeper ones half of the time
			cnt := 0
			for i, d := range leaves {
				if d < max {
					cnt++
					if r.Intn(cnt) == 0 {
						best = i
					}
				}
			}
			if r.Bool() {
				for i, d := range leaves {
					if d < max && d > leaves[best] && r.Bool() {
						best = i
					}
				}
			}
		}
		if best < 0 {
			panic("synth: cannot split")
		}
		d := leaves[best] + 1
		leaves[best] = d
		leaves = append(leaves, d)
	}
	sort.Ints(leaves)
	return leaves
}

// AssignLengths gives each used symbol (freq>0 or forced) a length from shape.
// byFreq: shorter codes to more frequent symbols; otherwise random.
func AssignLengths(r *gen.Rand, nsym int, used []int, freq []int, shape []int, byFreq bool) []int {
	lengths := make([]int, nsym)
	order := append([]int(nil), used...)
	if byFreq {
		sort.SliceStable(order, func(i, j int) bool { return freq[order[i]] > freq[order[j]] })
	} else {
		p := r.Perm(len(order))
		o2 := make([]int, len(order))
		for i, j := range p {
			o2[i] = order[j]
		}
		order = o2
	}
	for i, s := range order {
		lengths[s] = shape[i]
	}
	return lengths
}

var (
	LenBase   = [29]int{3, 4, 5, 6, 7, 8, 9, 10, 11, 13, 15, 17, 19, 23, 27, 31, 35, 43, 51, 59, 67, 83, 99, 115, 131, 163, 195, 227, 258}
	LenExtra  = [29]int{0, 0, 0, 0, 0, 0, 0, 0, 1, 1, 1, 1, 2, 2, 2, 2, 3, 3, 3, 3, 4, 4, 4, 4, 5, 5, 5, 5, 0}
	DistBase  = [30]int{1, 2, 3, 4, 5, 7, 9, 13, 17, 25, 33, 49, 65, 97, 129, 193, 257, 385, 513, 769, 1025, 1537, 2049, 3073, 4097, 6145, 8193, 12289, 16385, 24577}
	DistExtra = [30]int{0, 0, 0, 0, 1, 1, 2, 2, 3, 3, 4, 4, 5, 5, 6, 6, 7, 7, 8, 8, 9, 9, 10, 10, 11, 11, 12, 12, 13, 13}
	CLOrder   = [19]int{16, 17, 18, 0, 8, 7, 9, 6, 10, 5, 11, 4, 12, 3, 13, 2, 14, 1, 15}
)

// LenSym returns (symbol index 0..28, extra value) for a match length 3..258.
// Length 258 is coded with symbol 28 (the dedicated one).
func LenSym(l int) (int, int) {
	if l == 258 {
		return 28, 0
	}
	for s := 27; s >= 0; s-- {
		if l >= LenBase[s] {
			return s, l - LenBase[s]
		}
	}
	panic("bad length")
}

func DistSym(d int) (int, int) {
	for s := 29; s >= 0; s-- {
		if d >= DistBase[s] {
			return s, d - DistBase[s]
		}
	}
	panic("bad distance")
}

// Token kinds.
const (
	TLit     = iota // Lit
	TMatch          // Len, Dist
	TRawLL          // lit/len symbol Sym emitted as is (e.g. 286); followed by nothing
	TRawDist        // a match whose distance symbol is given raw: Len, Sym (30/31), no extra bits
	TOnes           // 15 one-bits: an unassigned code in any incomplete canonical code
	TBits           // raw bits V/N
)

// TMatchOnes: a length symbol followed by 15 one-bits where the distance code
// should be.
const TMatchOnes = 100

// TMatchUnassigned: a length symbol followed by the first unassigned distance
// codeword of maximal length (falls back to 15 one-bits for a complete code).
const TMatchUnassigned = 101

type Token struct {
	Kind int
	Lit  byte
	Len  int
	Dist int
	Sym  int
	V    uint32
	N    int
	// Alt258: code length 258 as symbol 27 + extra 31 (legal alternative)
	Alt258 bool
}

func Lit(b byte) Token     { return Token{Kind: TLit, Lit: b} }
func Match(l, d int) Token { return Token{Kind: TMatch, Len: l, Dist: d} }

// Apply appends the plaintext effect of toks to out. ok=false when a token is
// not a plain literal/match or a distance reaches before the start.
func Apply(out []byte, toks []Token) ([]byte, bool) {
	for _, t := range toks {
		switch t.Kind {
		case TLit:
			out = append(out, t.Lit)
		case TMatch:
			if t.Dist > len(out) || t.Dist < 1 {
				return out, false
			}
			for i := 0; i < t.Len; i++ {
				out = append(out, out[len(out)-t.Dist])
			}
		default:
			return out, false
		}
	}
	return out, true
}

// CLSym is one symbol of the code-length sequence of a dynamic header.
type CLSym struct {
	Sym   int // 0..18
	Extra int
}

// DynSpec describes a dynamic block header. Zero values mean "derive".
type DynSpec struct {
	LitLens  []int   // len = number of lit/len lengths transmitted (257..286, or more for faults)
	DistLens []int   // len = number of distance lengths transmitted (1..30, or more for faults)
	RLE      string  // "greedy", "none", "random"
	Cross    bool    // let runs cross the literal/distance boundary
	CLSeq    []CLSym // explicit sequence (overrides RLE of LitLens+DistLens)
	CLLens   []int   // explicit 19 code-length-code lengths (else derived, complete, ≤7)
	CLShape  string  // tree strategy for derived CL code
	NoTrim   bool    // transmit all 19 CL lengths
	RawHLIT  int     // -1 derive
	RawHDIST int     // -1 derive
	RawHCLEN int     // -1 derive
}

func NewDynSpec() *DynSpec { return &DynSpec{RawHLIT: -1, RawHDIST: -1, RawHCLEN: -1, RLE: "greedy"} }

// rle encodes a length sequence. Mode "greedy" is what encoders do, "none"
// spells every length out, "random" picks, at every position, any operator
// that is legal there (also the ones no encoder would choose: code 16 repeating
// a zero after a 17/18 run, short runs where a longer one would fit).
func rle(r *gen.Rand, seq []int, mode string) []CLSym {
	var out []CLSym
	i := 0
	for i < len(seq) {
		v := seq[i]
		run := 1
		for i+run < len(seq) && seq[i+run] == v {
			run++
		}
		if mode == "random" {
			// candidates: 0 literal, 1 code 16, 2 code 17, 3 code 18
			cand := []int{0}
			if i > 0 && seq[i-1] == v && run >= 3 {
				cand = append(cand, 1, 1)
			}
			if v == 0 && run >= 3 {
				cand = append(cand, 2)
			}
			if v == 0 && run >= 11 {
				cand = append(cand, 3)
			}
			switch cand[r.Intn(len(cand))] {
			case 1:
				k := run
				if k > 6 {
					k = 6
				}
				k = r.Range(3, k)
				out = append(out, CLSym{Sym: 16, Extra: k - 3})
				i += k
			case 2:
				k := run
				if k > 10 {
					k = 10
				}
				k = r.Range(3, k)
				out = append(out, CLSym{Sym: 17, Extra: k - 3})
				i += k
			case 3:
				k := run
				if k > 138 {
					k = 138
				}
				k = r.Range(11, k)
				out = append(out, CLSym{Sym: 18, Extra: k - 11})
				i += k
			default:
				out = append(out, CLSym{Sym: v})
				i++
			}
			continue
		}
		if mode == "none" {
			out = append(out, CLSym{Sym: v})
			i++
			continue
		}
		if v == 0 && run >= 3 {
			if run > 138 {
				run = 138
			}
			if run >= 11 {
				out = append(out, CLSym{Sym: 18, Extra: run - 11})
			} else {
				out = append(out, CLSym{Sym: 17, Extra: run - 3})
			}
			i += run
			continue
		}
		if v != 0 && run >= 4 {
			out = append(out, CLSym{Sym: v})
			k := run - 1
			if k > 6 {
				k = 6
			}
			out = append(out, CLSym{Sym: 16, Extra: k - 3})
			i += 1 + k
			continue
		}
		out = append(out, CLSym{Sym: v})
		i++
	}
	return out
}

// Stream accumulates blocks and the plaintext they stand for.
type Stream struct {
	W     BitWriter
	Plain []byte
	Valid bool // false once a fault or an inexpressible token was emitted
	Desc  []string
	R     *gen.Rand
}

func NewStream(r *gen.Rand) *Stream { return &Stream{Valid: true, R: r} }

func (s *Stream) note(f string, a ...interface{}) { s.Desc = append(s.Desc, fmt.Sprintf(f, a...)) }

func (s *Stream) hdr(final bool, typ uint32) {
	f := uint32(0)
	if final {
		f = 1
	}
	s.W.Bits(f, 1)
	s.W.Bits(typ, 2)
}

func (s *Stream) Stored(final bool, data []byte) {
	s.note("stored(%d)@bit%d", len(data), s.W.BitLen()&7)
	s.hdr(final, 0)
	s.W.Align()
	n := uint32(len(data))
	s.W.Bits(n, 16)
	s.W.Bits(^n&0xffff, 16)
	for _, b := range data {
		s.W.Bits(uint32(b), 8)
	}
	s.Plain = append(s.Plain, data...)
}

// StoredRaw writes a stored block with arbitrary LEN/NLEN and padding bits.
func (s *Stream) StoredRaw(final bool, ln, nlen uint32, pad uint32, data []byte) {
	s.note("storedraw(len=%d nlen=%#x)", ln, nlen)
	s.hdr(final, 0)
	for s.W.BitLen()&7 != 0 {
		s.W.Bits(pad&1, 1)
		pad >>= 1
	}
	s.W.Bits(ln, 16)
	s.W.Bits(nlen, 16)
	for _, b := range data {
		s.W.Bits(uint32(b), 8)
	}
	if ln == ^nlen&0xffff && int(ln) == len(data) {
		s.Plain = append(s.Plain, data...)
	} else {
		s.Valid = false
	}
}

func (s *Stream) tokens(toks []Token, litLens []int, litCodes []uint32, distLens []int, distCodes []uint32) {
	for _, t := range toks {
		switch t.Kind {
		case TLit:
			s.W.Code(litCodes[t.Lit], litLens[t.Lit])
		case TMatch, TRawDist:
			ls, le := LenSym(t.Len)
			if t.Alt258 && t.Len == 258 {
				ls, le = 27, 31
			}
			s.W.Code(litCodes[257+ls], litLens[257+ls])
			s.W.Bits(uint32(le), LenExtra[ls])
			if t.Kind == TRawDist {
				s.W.Code(distCodes[t.Sym], distLens[t.Sym])
				s.Valid = false
				continue
			}
			ds, de := DistSym(t.Dist)
			s.W.Code(distCodes[ds], distLens[ds])
			s.W.Bits(uint32(de), DistExtra[ds])
		case TRawLL:
			s.W.Code(litCodes[t.Sym], litLens[t.Sym])
			s.Valid = false
		case TMatchOnes:
			ls, le := LenSym(t.Len)
			s.W.Code(litCodes[257+ls], litLens[257+ls])
			s.W.Bits(uint32(le), LenExtra[ls])
			s.W.Bits(0x7fff, 15)
			s.Valid = false
		case TMatchUnassigned:
			ls, le := LenSym(t.Len)
			s.W.Code(litCodes[257+ls], litLens[257+ls])
			s.W.Bits(uint32(le), LenExtra[ls])
			if c, n, ok := FirstUnassigned(distLens[:30]); ok {
				s.W.Code(c, n)
			} else {
				s.W.Bits(0x7fff, 15)
			}
			s.Valid = false
		case TOnes:
			s.W.Bits(0x7fff, 15)
			s.Valid = false
		case TBits:
			s.W.Bits(t.V, t.N)
			s.Valid = false
		}
	}
	var ok bool
	s.Plain, ok = Apply(s.Plain, toks)
	if !ok {
		s.Valid = false
	}
}

var fixedLitLens, fixedDistLens []int
var fixedLitCodes, fixedDistCodes []uint32

func init() {
	fixedLitLens = make([]int, 288)
	for i := range fixedLitLens {
		switch {
		case i < 144:
			fixedLitLens[i] = 8
		case i < 256:
			fixedLitLens[i] = 9
		case i < 280:
			fixedLitLens[i] = 7
		default:
			fixedLitLens[i] = 8
		}
	}
	fixedDistLens = make([]int, 32)
	for i := range fixedDistLens {
		fixedDistLens[i] = 5
	}
	fixedLitCodes = Canonical(fixedLitLens)
	fixedDistCodes = Canonical(fixedDistLens)
}

// Fixed writes a fixed-Huffman block; eob=false omits the end-of-block code.
func (s *Stream) Fixed(final bool, toks []Token, eob bool) {
	s.note("fixed(%d tokens)", len(toks))
	s.hdr(final, 1)
	s.tokens(toks, fixedLitLens, fixedLitCodes, fixedDistLens, fixedDistCodes)
	if eob {
		s.W.Code(fixedLitCodes[256], 7)
	} else {
		s.Valid = false
	}
}

// Dynamic writes a dynamic block with the header described by spec.
func (s *Stream) Dynamic(final bool, toks []Token, spec *DynSpec, eob bool) {
	r := s.R
	nlit, ndist := len(spec.LitLens), len(spec.DistLens)
	seq := spec.CLSeq
	if seq == nil {
		if spec.Cross {
			all := append(append([]int(nil), spec.LitLens...), spec.DistLens...)
			seq = rle(r, all, spec.RLE)
		} else {
			seq = append(rle(r, spec.LitLens, spec.RLE), rle(r, spec.DistLens, spec.RLE)...)
		}
	}
	cl := spec.CLLens
	if cl == nil {
		var freq [19]int
		var used []int
		for _, c := range seq {
			freq[c.Sym]++
		}
		for i, f := range freq {
			if f > 0 {
				used = append(used, i)
			}
		}
		shapeName := spec.CLShape
		if shapeName == "" {
			shapeName = "random"
		}
		shape := TreeShape(r, len(used), 7, shapeName)
		cl = AssignLengths(r, 19, used, freq[:], shape, r.Bool())
	}
	clCodes := Canonical(cl)
	hclen := 19
	if !spec.NoTrim {
		for hclen > 4 && cl[CLOrder[hclen-1]] == 0 {
			hclen--
		}
	}
	hlit, hdist := nlit-257, ndist-1
	if spec.RawHLIT >= 0 {
		hlit = spec.RawHLIT
	}
	if spec.RawHDIST >= 0 {
		hdist = spec.RawHDIST
	}
	if spec.RawHCLEN >= 0 {
		hclen = spec.RawHCLEN + 4
	}
	start := s.W.BitLen()
	s.hdr(final, 2)
	s.W.Bits(uint32(hlit), 5)
	s.W.Bits(uint32(hdist), 5)
	s.W.Bits(uint32(hclen-4), 4)
	for i := 0; i < hclen; i++ {
		s.W.Bits(uint32(cl[CLOrder[i]]), 3)
	}
	for _, c := range seq {
		s.W.Code(clCodes[c.Sym], cl[c.Sym])
		switch c.Sym {
		case 16:
			s.W.Bits(uint32(c.Extra), 2)
		case 17:
			s.W.Bits(uint32(c.Extra), 3)
		case 18:
			s.W.Bits(uint32(c.Extra), 7)
		}
	}
	ml, md := 0, 0
	for _, l := range spec.LitLens {
		if l > ml {
			ml = l
		}
	}
	for _, l := range spec.DistLens {
		if l > md {
			md = l
		}
	}
	s.note("dynamic(%d tokens hlit=%d hdist=%d hclen=%d maxlit=%d maxdist=%d hdrbits=%d rle=%s cross=%v)",
		len(toks), hlit, hdist, hclen-4, ml, md, s.W.BitLen()-start, spec.RLE, spec.Cross)
	ll := make([]int, 288)
	copy(ll, spec.LitLens)
	dl := make([]int, 32)
	copy(dl, spec.DistLens)
	s.tokens(toks, ll, Canonical(ll), dl, Canonical(dl))
	if eob {
		if ll[256] == 0 {
			s.Valid = false
		}
		s.W.Code(Canonical(ll)[256], ll[256])
	} else {
		s.Valid = false
	}
}

// Usage collects which symbols a token list needs.
func Usage(toks []Token) (litFreq [286]int, distFreq [30]int) {
	litFreq[256]++
	for _, t := range toks {
		switch t.Kind {
		case TLit:
			litFreq[t.Lit]++
		case TMatch, TRawDist, TMatchOnes, TMatchUnassigned:
			ls, _ := LenSym(t.Len)
			if t.Alt258 && t.Len == 258 {
				ls = 27
			}
			litFreq[257+ls]++
			if t.Kind == TMatch {
				ds, _ := DistSym(t.Dist)
				distFreq[ds]++
			}
		}
	}
	return
}

// CodeOpts steers how lengths are chosen for a block.
type CodeOpts struct {
	MaxLit    int    // max lit/len code length (1..15); 0 = random
	MaxDist   int    // max distance code length; 0 = random
	Shape     string // "deep", "flat", "random", "" = random pick
	ExtraLit  int    // additionally give codes to this many unused lit/len symbols
	ExtraDist int
	ByFreq    bool
	FullHLIT  bool // transmit all 286 / 30 lengths
}

// LengthsFor derives complete lit/len and distance length arrays covering the
// tokens. ok=false if the symbol count does not fit the requested max depth.
func LengthsFor(r *gen.Rand, toks []Token, o CodeOpts) (lit, dist []int) {
	lf, df := Usage(toks)
	pick := func(nsym int, freq []int, extra, max int) []int {
		var used []int
		var unused []int
		for i := 0; i < nsym; i++ {
			if freq[i] > 0 {
				used = append(used, i)
			} else {
				unused = append(unused, i)
			}
		}
		p := r.Perm(len(unused))
		for i := 0; i < extra && i < len(unused); i++ {
			used = append(used, unused[p[i]])
		}
		sort.Ints(used)
		if len(used) == 0 {
			return make([]int, nsym)
		}
		if max == 0 {
			max = r.Range(1, 15)
		}
		for len(used) > 1<<uint(max) {
			max++
		}
		if len(used) > 1 && max < 1 {
			max = 1
		}
		shape := o.Shape
		if shape == "" {
			shape = []string{"deep", "flat", "random"}[r.Intn(3)]
		}
		return AssignLengths(r, nsym, used, freq, TreeShape(r, len(used), max, shape), o.ByFreq)
	}
	lit = pick(286, lf[:], o.ExtraLit, o.MaxLit)
	dist = pick(30, df[:], o.ExtraDist, o.MaxDist)
	if !o.FullHLIT {
		n := 286
		for n > 257 && lit[n-1] == 0 {
			n--
		}
		lit = lit[:n]
		m := 30
		for m > 1 && dist[m-1] == 0 {
			m--
		}
		dist = dist[:m]
	}
	return
}

// RandomTokens draws a token list producing about n bytes, given `have` bytes
// of history already produced.
func RandomTokens(r *gen.Rand, have, n int, style string) []Token {
	var toks []Token
	produced := 0
	alpha := r.Pick(1, 2, 4, 16, 64, 256)
	base := r.Intn(256)
	for produced < n {
		total := have + produced
		wantMatch := total > 0 && style != "lits" && (style == "matches" || r.Chance(2, 5))
		if !wantMatch {
			toks = append(toks, Lit(byte(base+r.Intn(alpha))))
			produced++
			continue
		}
		var l int
		switch r.Intn(6) {
		case 0:
			l = r.Pick(3, 4, 10, 11, 12, 257, 258, 227, 226, 130, 131, 163, 18, 19)
		case 1:
			l = 258
		default:
			l = r.Range(3, 258)
		}
		var d int
		switch r.Intn(8) {
		case 0:
			d = 1
		case 1:
			d = r.Range(1, 4)
		case 2:
			d = l // distance == length
		case 3:
			d = r.Range(1, l) // overlapping
		case 4:
			d = total // exactly everything produced so far
		case 5:
			d = r.Pick(4095, 4096, 4097, 32767, 32768, 24576, 24577, 16384, 16385, 8192, 8193, 257, 256, 1025, 1024)
		default:
			d = r.Range(1, 32768)
		}
		if d > total {
			d = r.Range(1, total)
		}
		if d > 32768 {
			d = 32768
		}
		t := Match(l, d)
		if l == 258 && r.Chance(1, 4) {
			t.Alt258 = true
		}
		toks = append(toks, t)
		produced += l
	}
	return toks
}

// RandomValid builds a random valid stream of up to maxOut plaintext bytes
// mixing all block types and header shapes. It returns the stream bytes, the
// plaintext and a description.
func RandomValid(r *gen.Rand, maxOut int) (stream, plain []byte, desc string) {
	s := NewStream(r)
	nblocks := r.Pick(1, 1, 2, 3, 5, 8)
	if r.Chance(1, 20) {
		nblocks = r.Range(20, 200) // many tiny blocks
	}
	for b := 0; b < nblocks; b++ {
		final := b == nblocks-1
		budget := maxOut - len(s.Plain)
		if budget < 0 {
			budget = 0
		}
		n := 0
		switch r.Intn(5) {
		case 0:
			n = 0
		case 1:
			n = r.Range(0, 20)
		case 2:
			n = r.Range(0, 2000)
		default:
			n = r.Range(0, budget)
		}
		if nblocks > 10 {
			n = r.Range(0, 12)
		}
		if n > budget {
			n = budget
		}
		switch r.Intn(10) {
		case 0, 1:
			if n > 65535 {
				n = 65535
			}
			if r.Chance(1, 30) && budget >= 65535 {
				n = 65535
			}
			s.Stored(final, r.Bytes(n))
		case 2, 3:
			s.Fixed(final, RandomTokens(r, len(s.Plain), n, pickStyle(r)), true)
		default:
			toks := RandomTokens(r, len(s.Plain), n, pickStyle(r))
			o := CodeOpts{ByFreq: r.Bool(), FullHLIT: r.Chance(1, 6)}
			switch r.Intn(6) {
			case 0:
				o.MaxLit, o.MaxDist, o.Shape = 15, 15, "deep"
			case 1:
				o.MaxLit, o.MaxDist = r.Range(9, 15), r.Range(5, 15)
			case 2:
				o.MaxLit, o.MaxDist, o.Shape = r.Range(12, 15), r.Range(10, 15), "random"
			}
			if r.Chance(1, 3) {
				o.ExtraLit = r.Range(0, 285)
				o.ExtraDist = r.Range(0, 29)
			}
			lit, dist := LengthsFor(r, toks, o)
			spec := NewDynSpec()
			spec.LitLens, spec.DistLens = lit, dist
			spec.RLE = []string{"greedy", "none", "random"}[r.Intn(3)]
			spec.Cross = r.Bool()
			spec.NoTrim = r.Chance(1, 5)
			spec.CLShape = []string{"deep", "flat", "random"}[r.Intn(3)]
			s.Dynamic(final, toks, spec, true)
		}
	}
	if !s.Valid {
		panic("synth: RandomValid produced an invalid stream: " + fmt.Sprint(s.Desc))
	}
	d := fmt.Sprint(s.Desc)
	if len(d) > 600 {
		d = d[:600] + "…"
	}
	return s.W.Bytes(), s.Plain, d
}

func pickStyle(r *gen.Rand) string {
	return []string{"mixed", "mixed", "lits", "matches"}[r.Intn(4)]
}

// TwoDeepTrees builds a dynamic block whose distance code (and, optionally,
// lit/len code) has two separate sub-trees reaching 15 bits: lengths
// 1..9, then twice 11,12,13,14,15,15. Decoders with two-level tables need two
// maximal long-code groups for it.
func TwoDeepTrees(r *gen.Rand, litToo bool) (stream, plain []byte, desc string) {
	s := NewStream(r)
	distShape := []int{1, 2, 3, 4, 5, 6, 7, 8, 9, 11, 12, 13, 14, 15, 15, 11, 12, 13, 14, 15, 15}
	perm := r.Perm(30)
	distLens := make([]int, 30)
	for i, l := range distShape {
		distLens[perm[i]] = l
	}
	// tokens: literals first, then matches using every assigned distance symbol
	var toks []Token
	for i := 0; i < 40000; i++ {
		toks = append(toks, Lit(byte(r.Intn(4))))
		if i > 33000 {
			break
		}
	}
	for rep := 0; rep < 3; rep++ {
		for sym := 0; sym < 30; sym++ {
			if distLens[sym] == 0 {
				continue
			}
			d := DistBase[sym] + r.Intn(1<<uint(DistExtra[sym]))
			toks = append(toks, Match(r.Range(3, 258), d))
		}
	}
	var lit []int
	if litToo {
		// lit/len: chain to depth 11, two 13..15 sub-trees, rest flat enough
		lf, _ := Usage(toks)
		var used []int
		for i, f := range lf {
			if f > 0 {
				used = append(used, i)
			}
		}
		extra := r.Perm(286)
		for _, e := range extra {
			if len(used) >= 40 {
				break
			}
			if lf[e] == 0 {
				used = append(used, e)
			}
		}
		shape := TreeShape(r, len(used), 15, "random")
		lit = AssignLengths(r, 286, used, lf[:], shape, false)
	} else {
		lit, _ = LengthsFor(r, toks, CodeOpts{MaxLit: r.Range(8, 15), FullHLIT: true})
	}
	sp := NewDynSpec()
	sp.LitLens, sp.DistLens = lit, distLens
	sp.RLE = "random"
	s.Dynamic(true, toks, sp, true)
	if !s.Valid {
		panic("synth: TwoDeepTrees invalid")
	}
	return s.W.Bytes(), s.Plain, "two-deep-dist-subtrees " + fmt.Sprint(s.Desc)
}

// FirstUnassigned returns (code, length) of the numerically first unassigned
// codeword of maximal length in an incomplete canonical code, MSB-first, or
// ok=false when the code is complete or empty.
func FirstUnassigned(lengths []int) (code uint32, n int, ok bool) {
	max := 0
	for _, l := range lengths {
		if l > max {
			max = l
		}
	}
	if max == 0 || Kraft(lengths) >= 1<<15 {
		return 0, 0, false
	}
	var count [17]int
	for _, l := range lengths {
		count[l]++
	}
	count[0] = 0
	c := uint32(0)
	for b := 1; b <= max; b++ {
		c = (c + uint32(count[b-1])) << 1
	}
	c += uint32(count[max]) // first code after the assigned ones of maximal length
	if c >= 1<<uint(max) {
		return 0, 0, false
	}
	return c, max, true
}

// WindowEdge builds a stream whose tiny dynamic block (j literals from a two- or
// three-symbol alphabet with 1-3-bit codes, so that the decoder's packed
// multi-symbol table entries cover "literal literal end-of-block") begins when
// exactly 65536-delta bytes (plus k further 32 KiB) have been produced: the
// entry meets the full 64 KiB output window. tinyFinal makes that block the
// last one; otherwise a fixed block follows.
func WindowEdge(r *gen.Rand, delta, j, k int, tinyFinal bool, withMatch bool) (stream, plain []byte, desc string) {
	s := NewStream(r)
	P := 65536 + k*32768 - delta
	for left := P; left > 0; {
		n := left
		if n > 65535 {
			n = r.Range(1, 65535)
		}
		if r.Bool() {
			s.Stored(false, r.Bytes(n))
		} else {
			// compressible filler through a fixed block of matches
			var toks []Token
			toks = append(toks, Lit(byte(r.Intn(256))))
			m := n - 1
			for m > 0 {
				l := 258
				if m < l {
					l = m
				}
				if l < 3 {
					for ; m > 0; m-- {
						toks = append(toks, Lit(byte(r.Intn(256))))
					}
					break
				}
				if m-l > 0 && m-l < 3 {
					l -= 3
				}
				toks = append(toks, Match(l, 1))
				m -= l
			}
			s.Fixed(false, toks, true)
		}
		left -= n
	}
	var toks []Token
	a, b := byte(r.Intn(256)), byte(r.Intn(256))
	for i := 0; i < j; i++ {
		if r.Bool() {
			toks = append(toks, Lit(a))
		} else {
			toks = append(toks, Lit(b))
		}
	}
	if withMatch {
		toks = append(toks, Match(r.Range(3, 10), r.Range(1, 4)))
		toks = append(toks, Lit(a))
	}
	lit, dist := LengthsFor(r, toks, CodeOpts{MaxLit: r.Range(2, 3), MaxDist: r.Range(1, 2), Shape: "flat"})
	sp := NewDynSpec()
	sp.LitLens, sp.DistLens = lit, dist
	s.Dynamic(tinyFinal, toks, sp, true)
	if !tinyFinal {
		s.Fixed(true, RandomTokens(r, len(s.Plain), r.Range(0, 200), "mixed"), true)
	}
	if !s.Valid {
		panic("synth: WindowEdge invalid")
	}
	return s.W.Bytes(), s.Plain, fmt.Sprintf("window-edge(delta=%d j=%d k=%d final=%v match=%v)", delta, j, k, tinyFinal, withMatch)
}

// MaxHeader builds a dynamic block whose header has the greatest possible
// length, 2286 bits (17 + 19x3 + 316x7): HLIT=29, HDIST=29, HCLEN=15, every one
// of the 316 code lengths sent literally (no repeat codes) with a 7-bit
// code-length code. The lit/len code uses lengths 8 and 9 (226 + 60 symbols),
// the distance code 4 and 5 (2 + 28): four length values, which get the four
// 7-bit codes of the code-length code {1,2,3,4,5,7,7,7,7}; its shorter codes go
// to length values that never occur. lead stored bytes come first.
func MaxHeader(r *gen.Rand, lead int, final bool) (stream, plain []byte, desc string) {
	s := NewStream(r)
	if lead > 0 {
		for left := lead; left > 0; {
			n := left
			if n > 65535 {
				n = 65535
			}
			s.Stored(false, r.Bytes(n))
			left -= n
		}
	}
	perm := r.Perm(286)
	lit := make([]int, 286)
	for i, sy := range perm {
		if i < 226 {
			lit[sy] = 8
		} else {
			lit[sy] = 9
		}
	}
	dperm := r.Perm(30)
	dist := make([]int, 30)
	for i, sy := range dperm {
		if i < 2 {
			dist[sy] = 4
		} else {
			dist[sy] = 5
		}
	}
	cl := make([]int, 19)
	cl[8], cl[9], cl[4], cl[5] = 7, 7, 7, 7
	// shorter codes to length values that do not occur (and not to 16/17/18 either way)
	unused := []int{0, 1, 2, 3, 6, 7, 10, 11, 12, 13, 14, 15, 16, 17, 18}
	up := r.Perm(len(unused))
	for k, l := range []int{1, 2, 3, 4, 5} {
		cl[unused[up[k]]] = l
	}
	sp := NewDynSpec()
	sp.LitLens, sp.DistLens = lit, dist
	sp.RLE, sp.NoTrim, sp.CLLens = "none", true, cl
	toks := RandomTokens(r, len(s.Plain), r.Range(0, 400), "mixed")
	s.Dynamic(final, toks, sp, true)
	if !final {
		s.Fixed(true, RandomTokens(r, len(s.Plain), r.Range(0, 100), "mixed"), true)
	}
	if !s.Valid {
		panic("synth: MaxHeader invalid")
	}
	return s.W.Bytes(), s.Plain, fmt.Sprintf("max-header(lead=%d) %v", lead, s.Desc)
}

// MatchEdge builds a small stream (a few hundred bytes, so that every split
// point can be tried) in which a packed "literal(s) + long match" table entry
// of a short-code dynamic block starts exactly 258+delta bytes before the
// output reaches 65536 + k*32768: the decoder's fast loop, which checks the
// output limit only between table entries, runs closest to the end of its
// window there.
func MatchEdge(r *gen.Rand, delta, nlit, mlen, k int) (stream, plain []byte, desc string) {
	s := NewStream(r)
	P := 65536 + k*32768 - 258 - delta
	// compressible filler: one literal and maximal matches at distance 1
	toks := []Token{Lit('a')}
	for left := P - 1; left > 0; {
		l := 258
		if left < l {
			l = left
		}
		if l < 3 {
			for ; left > 0; left-- {
				toks = append(toks, Lit('a'))
			}
			break
		}
		if left-l > 0 && left-l < 3 {
			l -= 3
		}
		toks = append(toks, Match(l, 1))
		left -= l
	}
	// same block as the edge entry (oneBlock): the fast loop is entered at the
	// start of a block and only re-checks its limits between table entries
	oneBlock := r.Chance(3, 4)
	var t2 []Token
	if oneBlock {
		t2 = toks
	} else {
		s.Fixed(false, toks, true)
	}
	for i := 0; i < nlit; i++ {
		t2 = append(t2, Lit('b'))
	}
	t2 = append(t2, Match(mlen, 1))
	for i := r.Range(0, 6); i > 0; i-- {
		t2 = append(t2, Lit(byte('b'+r.Intn(2))), Match(r.Pick(258, 257, 100), r.Pick(1, 2)))
	}
	lit, dist := LengthsFor(r, t2, CodeOpts{MaxLit: r.Range(2, 4), MaxDist: r.Range(1, 2), Shape: "flat"})
	sp := NewDynSpec()
	sp.LitLens, sp.DistLens = lit, dist
	s.Dynamic(false, t2, sp, true)
	// a sync-flush-like empty stored block and a short tail, as an encoder would leave
	if r.Bool() {
		s.Stored(false, nil)
	}
	s.Fixed(true, RandomTokens(r, len(s.Plain), r.Range(0, 20), "lits"), true)
	if !s.Valid {
		panic("synth: MatchEdge invalid")
	}
	return s.W.Bytes(), s.Plain, fmt.Sprintf("match-edge(delta=%d nlit=%d mlen=%d k=%d oneblock=%v)", delta, nlit, mlen, k, oneBlock)
}
