package synth

import (
	"fmt"

	"fgverif/gen"
)

// Faults names every single-fault shape the injector can produce.
var Faults = []string{
	"dist-too-far-start", "dist-too-far-later", "dist-too-far-dynamic",
	"unassigned-lit", "unassigned-dist", "unassigned-cl",
	"oversub-lit", "oversub-dist", "oversub-cl",
	"eob-zero", "rep-first", "run-past", "run-past-zero",
	"stored-nlen", "block-type-3",
	"sym-286", "sym-287", "dist-30", "dist-31",
	"hlit-30", "hlit-31", "hdist-30", "hdist-31",
	"incomplete-lit-unused", "incomplete-dist-unused", "empty-dist-used",
	"one-dist-code-other-used", "unassigned-dist-long",
	"hdist-30-wellformed", "hlit-30-wellformed", "oversub-lit-one-15bit", "oversub-dist-one-15bit",
}

// Faulty builds a stream with exactly one injected fault, optionally after
// `before` valid blocks, and returns it with the plaintext of the valid part
// that precedes the faulty block.
func Faulty(r *gen.Rand, fault string, before int) (stream []byte, validPrefixPlain []byte, desc string) {
	s := NewStream(r)
	for i := 0; i < before; i++ {
		// blocks that fill table entries with real codes, so stale entries matter
		n := r.Range(1, 400)
		toks := RandomTokens(r, len(s.Plain), n, "mixed")
		switch r.Intn(3) {
		case 0:
			s.Fixed(false, toks, true)
		default:
			o := CodeOpts{ExtraLit: r.Range(0, 285), ExtraDist: r.Range(5, 29), MaxLit: r.Range(9, 15), MaxDist: r.Range(5, 15), FullHLIT: r.Bool()}
			if fault == "unassigned-dist-long" {
				o.MaxDist, o.ExtraDist, o.Shape = 15, 29, []string{"deep", "random"}[r.Intn(2)]
			}
			lit, dist := LengthsFor(r, toks, o)
			sp := NewDynSpec()
			sp.LitLens, sp.DistLens = lit, dist
			s.Dynamic(false, toks, sp, true)
		}
	}
	prefix := append([]byte(nil), s.Plain...)
	final := r.Bool()
	lead := RandomTokens(r, len(s.Plain), r.Range(0, 40), "mixed")
	have := len(s.Plain)
	if p, ok := Apply(append([]byte(nil), s.Plain...), lead); ok {
		have = len(p)
	}
	dyn := func(toks []Token, mod func(sp *DynSpec), eob bool) {
		lit, dist := LengthsFor(r, toks, CodeOpts{MaxLit: r.Range(9, 15), MaxDist: r.Range(5, 15), ExtraLit: r.Range(0, 30), ExtraDist: r.Range(0, 10)})
		sp := NewDynSpec()
		sp.LitLens, sp.DistLens = lit, dist
		if mod != nil {
			mod(sp)
		}
		s.Dynamic(final, toks, sp, eob)
	}
	far := func() int {
		// a distance beyond everything produced, at most 32768
		if have >= 32768 {
			return 32768
		}
		switch r.Intn(3) {
		case 0:
			return have + 1
		case 1:
			return r.Range(have+1, 32768)
		default:
			return 32768
		}
	}
	switch fault {
	case "dist-too-far-start":
		// very first token of the stream (or of this block) is a match
		if before == 0 {
			lead = nil
			have = 0
		}
		toks := append(lead, Match(r.Range(3, 258), far()))
		toks = append(toks, RandomTokens(r, have+300, r.Range(0, 50), "lits")...)
		s.Fixed(final, toks, true)
	case "dist-too-far-later":
		toks := append(lead, Match(r.Range(3, 258), far()))
		toks = append(toks, RandomTokens(r, have+300, r.Range(0, 300), "lits")...)
		s.Fixed(final, toks, true)
	case "dist-too-far-dynamic":
		toks := append(lead, Match(r.Range(3, 258), far()))
		toks = append(toks, RandomTokens(r, have+300, r.Range(0, 300), "lits")...)
		dyn(toks, nil, true)
	case "unassigned-lit":
		toks := append(lead, Token{Kind: TOnes})
		dyn(toks, func(sp *DynSpec) { makeIncomplete(r, sp.LitLens) }, true)
	case "unassigned-dist":
		if have == 0 {
			lead = append(lead, Lit(1), Lit(2), Lit(3))
		}
		toks := append(lead, Match(4, 1), Match(5, 2), Token{Kind: TMatchOnes, Len: r.Range(3, 258)})
		dyn(toks, func(sp *DynSpec) { makeIncomplete(r, sp.DistLens) }, true)
	case "unassigned-dist-long":
		// an incomplete distance code with several code lengths above 10 bits under
		// one 10-bit prefix; the stream uses the first unassigned codeword of that
		// group. A preceding block (before >= 1) with a complete deep distance code
		// fills the same long-code table slots, so stale entries would be hit.
		if have == 0 {
			lead = append(lead, Lit(1), Lit(2), Lit(3))
		}
		k := r.Range(11, 14)
		var dl []int
		for l := 1; l <= k; l++ {
			dl = append(dl, l)
		}
		dl = append(dl, r.Range(k, 15)) // mixed lengths in the long group, one codeword missing
		perm := r.Perm(30)
		distLens := make([]int, 30)
		for i2, l := range dl {
			distLens[perm[i2]] = l
		}
		// use only distances whose symbols have codes and are reachable
		var ok []int
		for sym, l := range distLens {
			if l > 0 && DistBase[sym] <= have+len(lead) {
				ok = append(ok, sym)
			}
		}
		toks := append([]Token(nil), lead...)
		for _, sym := range ok {
			toks = append(toks, Match(r.Range(3, 20), DistBase[sym]))
		}
		toks = append(toks, Token{Kind: TMatchUnassigned, Len: r.Range(3, 258)})
		lit, _ := LengthsFor(r, toks, CodeOpts{MaxLit: r.Range(9, 15)})
		sp := NewDynSpec()
		sp.LitLens, sp.DistLens = lit, distLens
		s.Dynamic(final, toks, sp, true)
	case "one-dist-code-other-used":
		// one-code distance tree (length 1, code 0); the stream uses code "1"
		if have == 0 {
			lead = append(lead, Lit(1), Lit(2), Lit(3))
		}
		toks := append(lead, Match(3, 1))
		lit, _ := LengthsFor(r, append(toks, Match(r.Range(3, 258), 1)), CodeOpts{MaxLit: r.Range(9, 15)})
		sp := NewDynSpec()
		sp.LitLens = lit
		sp.DistLens = []int{1}
		if r.Bool() {
			sp.DistLens = []int{0, 0, 1}
			toks = append(lead, Match(3, 3))
			if have+len(lead) < 3 {
				toks = append(append(lead, Lit(7), Lit(8), Lit(9)), Match(3, 3))
			}
			lit, _ = LengthsFor(r, append(toks, Match(r.Range(3, 258), 1)), CodeOpts{MaxLit: r.Range(9, 15)})
			sp.LitLens = lit
		}
		toks = append(toks, Token{Kind: TMatchOnes, Len: 3})
		s.Dynamic(final, toks, sp, true)
	case "empty-dist-used":
		// no distance code at all, but a length symbol appears
		toks := append(onlyLits(lead), Token{Kind: TMatchOnes, Len: r.Range(3, 258)})
		lit, _ := LengthsFor(r, toks, CodeOpts{MaxLit: r.Range(9, 15)})
		sp := NewDynSpec()
		sp.LitLens = lit
		sp.DistLens = []int{0}
		s.Dynamic(final, toks, sp, true)
	case "unassigned-cl":
		toks := lead
		lit, dist := LengthsFor(r, toks, CodeOpts{MaxLit: 9, MaxDist: 6})
		sp := NewDynSpec()
		sp.LitLens, sp.DistLens = lit, dist
		seq := append(rle(r, lit, "greedy"), rle(r, dist, "greedy")...)
		var used [19]bool
		for _, c := range seq {
			used[c.Sym] = true
		}
		// complete code over the used symbols plus one extra leaf that we remove
		var us []int
		for i, u := range used {
			if u {
				us = append(us, i)
			}
		}
		shape := TreeShape(r, len(us)+1, 7, "random")
		cl := make([]int, 19)
		for i, sy := range us {
			cl[sy] = shape[i] // last (longest) leaf stays unassigned
		}
		sp.CLLens = cl
		cut := r.Intn(len(seq) + 1)
		sp.CLSeq = append(append([]CLSym(nil), seq[:cut]...), CLSym{Sym: -1})
		sp.CLSeq = append(sp.CLSeq, seq[cut:]...)
		s.dynamicWithOnes(final, toks, sp)
	case "oversub-lit":
		dyn(lead, func(sp *DynSpec) { makeOversub(r, sp.LitLens) }, true)
	case "oversub-dist":
		dyn(lead, func(sp *DynSpec) {
			for len(sp.DistLens) < 3 {
				sp.DistLens = append(sp.DistLens, 0)
			}
			makeOversub(r, sp.DistLens)
		}, true)
	case "oversub-cl":
		dyn(lead, func(sp *DynSpec) {
			cl := make([]int, 19)
			for i := range cl {
				cl[i] = r.Range(1, 3)
			}
			sp.CLLens = cl
		}, true)
	case "eob-zero":
		toks := onlyLits(lead)
		toks = append(toks, RandomTokens(r, 0, r.Range(1, 300), "lits")...)
		lit, dist := LengthsFor(r, toks, CodeOpts{MaxLit: r.Range(9, 15)})
		// move the EOB's length to nothing: give its code to an unused symbol
		moved := false
		for i := range lit {
			if lit[i] == 0 && i != 256 {
				lit[i] = lit[256]
				moved = true
				break
			}
		}
		if !moved {
			lit = append(lit, lit[256])
		}
		lit[256] = 0
		sp := NewDynSpec()
		sp.LitLens, sp.DistLens = lit, dist
		s.Dynamic(final, toks, sp, false)
	case "rep-first":
		dyn(lead, func(sp *DynSpec) {
			seq := append(rle(r, sp.LitLens, "greedy"), rle(r, sp.DistLens, "greedy")...)
			sp.CLSeq = append([]CLSym{{Sym: 16, Extra: r.Intn(4)}}, seq...)
		}, true)
	case "run-past", "run-past-zero":
		dyn(lead, func(sp *DynSpec) {
			seq := append(rle(r, sp.LitLens, "none"), rle(r, sp.DistLens, "none")...)
			cut := r.Range(1, 10)
			if cut > len(seq)-1 {
				cut = len(seq) - 1
			}
			seq = seq[:len(seq)-cut]
			if fault == "run-past" {
				// make sure previous length is non-zero so 16 is legal as such
				seq = append(seq, CLSym{Sym: 16, Extra: 3})
				if cut >= 6 {
					seq = append(seq, CLSym{Sym: 16, Extra: 3}, CLSym{Sym: 16, Extra: 3})
				}
			} else {
				seq = append(seq, CLSym{Sym: 18, Extra: r.Range(cut, 127)})
			}
			sp.CLSeq = seq
		}, true)
	case "stored-nlen":
		n := uint32(r.Range(0, 300))
		bad := ^n & 0xffff
		switch r.Intn(3) {
		case 0:
			bad ^= 1 << uint(r.Intn(16))
		case 1:
			bad = n
		default:
			bad = uint32(r.Intn(65536))
			if bad == ^n&0xffff {
				bad ^= 1
			}
		}
		s.StoredRaw(final, n, bad, uint32(r.Intn(256)), r.Bytes(int(n)))
	case "block-type-3":
		s.hdr(final, 3)
		s.W.Bits(uint32(r.U64()), 29)
		s.Valid = false
		s.note("block-type-3")
	case "sym-286", "sym-287":
		sym := 286
		if fault == "sym-287" {
			sym = 287
		}
		toks := append(lead, Token{Kind: TRawLL, Sym: sym})
		toks = append(toks, Token{Kind: TBits, V: uint32(r.U64()), N: 20})
		s.Fixed(final, toks, true)
	case "dist-30", "dist-31":
		sym := 30
		if fault == "dist-31" {
			sym = 31
		}
		if have == 0 {
			lead = append(lead, Lit(9))
		}
		toks := append(lead, Token{Kind: TRawDist, Len: r.Range(3, 258), Sym: sym})
		toks = append(toks, Token{Kind: TBits, V: uint32(r.U64()), N: 20})
		s.Fixed(final, toks, true)
	case "hlit-30", "hlit-31", "hdist-30", "hdist-31":
		dyn(lead, func(sp *DynSpec) {
			switch fault {
			case "hlit-30":
				sp.RawHLIT = 30
			case "hlit-31":
				sp.RawHLIT = 31
			case "hdist-30":
				sp.RawHDIST = 30
			default:
				sp.RawHDIST = 31
			}
		}, true)
	case "hdist-30-wellformed", "hlit-30-wellformed":
		// an out-of-range count with exactly that many lengths following: a reader
		// that accepts the count finds nothing else wrong
		dyn(lead, func(sp *DynSpec) {
			if fault == "hdist-30-wellformed" {
				for len(sp.DistLens) < 31 {
					sp.DistLens = append(sp.DistLens, 0)
				}
				sp.RawHDIST = 30
			} else {
				for len(sp.LitLens) < 287 {
					sp.LitLens = append(sp.LitLens, 0)
				}
				sp.RawHLIT = 30
			}
		}, true)
	case "oversub-lit-one-15bit", "oversub-dist-one-15bit":
		// a complete code reaching 15 bits plus one surplus 15-bit codeword
		toks := lead
		o := CodeOpts{MaxLit: 15, MaxDist: 15, Shape: "deep", ExtraLit: r.Range(20, 100), ExtraDist: r.Range(16, 28)}
		lit, dist := LengthsFor(r, toks, o)
		sp := NewDynSpec()
		grow := func(l []int, max int) []int {
			for i, v := range l {
				if v == 0 {
					l[i] = 15
					return l
				}
			}
			if len(l) < max {
				return append(l, 15)
			}
			return l
		}
		if fault == "oversub-lit-one-15bit" {
			lit = grow(lit, 286)
		} else {
			dist = grow(dist, 30)
		}
		sp.LitLens, sp.DistLens = lit, dist
		s.Dynamic(final, toks, sp, true)
	case "incomplete-lit-unused":
		dyn(lead, func(sp *DynSpec) { makeIncomplete(r, sp.LitLens) }, true)
	case "incomplete-dist-unused":
		dyn(lead, func(sp *DynSpec) {
			for len(sp.DistLens) < 2 {
				sp.DistLens = append(sp.DistLens, 0)
			}
			makeIncomplete(r, sp.DistLens)
		}, true)
	default:
		panic("unknown fault " + fault)
	}
	s.Valid = false
	d := fmt.Sprintf("fault=%s before=%d %v", fault, before, s.Desc)
	if len(d) > 500 {
		d = d[:500] + "…"
	}
	return s.W.Bytes(), prefix, d
}

func onlyLits(toks []Token) []Token {
	var out []Token
	for _, t := range toks {
		if t.Kind == TLit {
			out = append(out, t)
		}
	}
	return out
}

// makeIncomplete lengthens one code so that the Kraft sum drops below one.
func makeIncomplete(r *gen.Rand, lens []int) {
	var idx []int
	for i, l := range lens {
		if l > 0 && l < 15 {
			idx = append(idx, i)
		}
	}
	if len(idx) == 0 {
		for i, l := range lens {
			if l == 15 {
				// drop a 15-bit code that is unused? cannot know; shorten nothing
				_ = i
			}
		}
		return
	}
	i := idx[r.Intn(len(idx))]
	lens[i]++
}

// makeOversub shortens codes until the Kraft sum exceeds one.
func makeOversub(r *gen.Rand, lens []int) {
	for tries := 0; tries < 1000 && Kraft(lens) <= 1<<15; tries++ {
		i := r.Intn(len(lens))
		if lens[i] > 1 {
			lens[i]--
		} else if lens[i] == 0 {
			lens[i] = r.Range(1, 3)
		}
	}
}

// dynamicWithOnes is Dynamic for a CLSeq containing Sym=-1 entries, which are
// written as seven one-bits (an unassigned code of any incomplete ≤7-bit code).
func (s *Stream) dynamicWithOnes(final bool, toks []Token, spec *DynSpec) {
	cl := spec.CLLens
	clCodes := Canonical(cl)
	hclen := 19
	for hclen > 4 && cl[CLOrder[hclen-1]] == 0 {
		hclen--
	}
	s.hdr(final, 2)
	s.W.Bits(uint32(len(spec.LitLens)-257), 5)
	s.W.Bits(uint32(len(spec.DistLens)-1), 5)
	s.W.Bits(uint32(hclen-4), 4)
	for i := 0; i < hclen; i++ {
		s.W.Bits(uint32(cl[CLOrder[i]]), 3)
	}
	for _, c := range spec.CLSeq {
		if c.Sym < 0 {
			s.W.Bits(0x7f, 7)
			continue
		}
		s.W.Code(clCodes[c.Sym], cl[c.Sym])
		switch c.Sym {
		case 16:
			s.W.Bits(uint32(c.Extra), 2)
		case 17:
			s.W.Bits(uint32(c.Extra), 3)
		case 18:
			s.W.Bits(uint32(c.Extra), 7)
		}
	}
	s.note("dynamic-with-unassigned-cl")
	ll := make([]int, 288)
	copy(ll, spec.LitLens)
	dl := make([]int, 32)
	copy(dl, spec.DistLens)
	s.tokens(toks, ll, Canonical(ll), dl, Canonical(dl))
	s.W.Code(Canonical(ll)[256], ll[256])
	s.Valid = false
}
