package props

import (
	"bytes"
	"fmt"
	"io"

	"fgverif/gen"
	"fgverif/mon"
	"fgverif/refinf"
	"fgverif/synth"
)

// C02 — the Reader decodes every valid DEFLATE stream exactly as
// compress/flate does.
type c02 struct{}

func init() { register(c02{}) }

func (c02) ID() string            { return "C02" }
func (c02) EvidenceLevel() string { return "exploration" }
func (c02) Rule() string {
	return "case = (stream, destination-size schedule, bufio size >= 4096): streams come from compress/flate at levels -2..9 with Flush, from fastgo's writers, from the block synthesiser (all code lengths 1..15, sub-tables, degenerate trees, cross-boundary runs, stored blocks at every bit offset) and from mutations of those that compress/flate still accepts. Only streams compress/flate accepts (and the strict reference agrees on) are judged: fastgo must return the same bytes then io.EOF, every Read within 0..len(p), no more than 1000 consecutive (0,nil). Non-trivial: non-empty plaintext; distinct by stream digest and schedule."
}
func (c02) NumCases(tier string) int {
	if tier == "thorough" {
		return 80000
	}
	return 5000
}
func (c02) Plan(tier string) []mon.RunSpec {
	if tier == "thorough" {
		return []mon.RunSpec{{Flavour: "plain"}, {Flavour: "race", Every: 25}}
	}
	return []mon.RunSpec{{Flavour: "plain"}}
}
func (c02) Assumptions() []string {
	return []string{"compress/flate is the definition of 'valid stream' and of the expected bytes; the reference inflater must agree with it or the case is dropped as inconclusive"}
}

// shapeCounters records which legal shapes the reference saw in a stream.
func shapeCounters(c *mon.Ctx, res *refinf.Result) {
	for _, b := range res.Blocks {
		switch b.Type {
		case 0:
			c.Count(fmt.Sprintf("shape:stored@bit%d", b.BitOff&7), 1)
			if b.StoredLen == 0 {
				c.Count("shape:stored-empty", 1)
			}
			if b.StoredLen == 65535 {
				c.Count("shape:stored-65535", 1)
			}
		case 1:
			c.Count("shape:fixed", 1)
		case 2:
			c.Count(fmt.Sprintf("shape:dyn-maxlit%02d", b.MaxLitBits), 1)
			c.Count(fmt.Sprintf("shape:dyn-maxdist%02d", b.MaxDistBits), 1)
			if b.MaxLitBits > 12 {
				c.Count("shape:dyn-lit-subtable", 1)
			}
			if b.MaxDistBits > 10 {
				c.Count("shape:dyn-dist-subtable", 1)
			}
			if b.DistCodes == 0 {
				c.Count("shape:dyn-no-dist-code", 1)
			}
			if b.DistCodes == 1 {
				c.Count("shape:dyn-one-dist-code", 1)
			}
			if b.CrossRun {
				c.Count("shape:dyn-run-crosses-lit-dist-boundary", 1)
			}
			if b.HeaderBits > 250*8 {
				c.Count("shape:dyn-header-over-250-bytes", 1)
			}
			if b.HLIT == 29 {
				c.Count("shape:dyn-hlit-max", 1)
			}
			if b.HDIST == 29 {
				c.Count("shape:dyn-hdist-max", 1)
			}
		}
		if b.Literals+b.Matches == 0 && b.Type != 0 {
			c.Count("shape:empty-huffman-block", 1)
		}
		if b.MaxLen == 258 {
			c.Count("shape:len258", 1)
		}
	}
	if res.MaxDist == 32768 {
		c.Count("shape:dist32768", 1)
	}
	if res.MaxDist > 16384 {
		c.Count("shape:dist>16384", 1)
	}
	if res.NBlocks > 50 {
		c.Count("shape:many-blocks", 1)
	}
}

func (c02) Run(c *mon.Ctx, i int) {
	r := c.R
	var vs *ValidStream
	mutated := ""
	switch {
	case i%10 == 9:
		// mutation of a valid stream that the standard library still accepts
		base := RandomValidStream(r, 30000)
		for try := 0; try < 30; try++ {
			m, d := Mutate(r, base.S)
			if out, err := stdlibInflate(m, nil); err == nil {
				vs = &ValidStream{S: m, Plain: out, Desc: base.Desc}
				mutated = d
				break
			}
		}
		if vs == nil {
			vs = base
		}
	case i%25 == 18:
		st, plain, d := synth.MatchEdge(r, r.Intn(4), r.Intn(3), r.Pick(258, 257), r.Pick(0, 0, 1, 2))
		vs = &ValidStream{S: st, Plain: plain, Desc: "synth " + d}
	case i%25 == 13:
		// the longest possible dynamic header (286 bytes), starting shortly before a
		// 4096-byte refill boundary so that it arrives in two pieces
		lead := r.Pick(0, 1, 7) + r.Pick(0, 4096-r.Range(6, 290), 8192-r.Range(6, 290), 65536-r.Range(6, 290))
		st, plain, d := synth.MaxHeader(r, lead, r.Bool())
		vs = &ValidStream{S: st, Plain: plain, Desc: "synth " + d}
	case i%25 == 3:
		// tiny dynamic block meeting the full 64 KiB output window (every delta)
		st, plain, d := synth.WindowEdge(r, i/25%6, r.Range(1, 4), r.Pick(0, 0, 1, 2), r.Bool(), r.Chance(1, 4))
		vs = &ValidStream{S: st, Plain: plain, Desc: "synth " + d}
	case i%50 == 7:
		st, plain, d := synth.TwoDeepTrees(r, r.Bool())
		vs = &ValidStream{S: st, Plain: plain, Desc: "synth " + d}
	case i%10 == 8:
		// long headers: synthesised dynamic block with all 286+30 lengths distinct-ish, no RLE
		s := synth.NewStream(r)
		toks := synth.RandomTokens(r, 0, r.Range(0, 3000), "mixed")
		lit, dist := synth.LengthsFor(r, toks, synth.CodeOpts{MaxLit: 15, MaxDist: 15, ExtraLit: 285, ExtraDist: 29, FullHLIT: true, Shape: "random"})
		sp := synth.NewDynSpec()
		sp.LitLens, sp.DistLens, sp.RLE, sp.NoTrim = lit, dist, "none", true
		sp.CLShape = "flat"
		if r.Bool() {
			s.Stored(false, r.Bytes(r.Intn(9)))
		}
		s.Dynamic(true, toks, sp, true)
		vs = &ValidStream{S: s.W.Bytes(), Plain: s.Plain, Desc: "synth-long-header " + fmt.Sprint(s.Desc)}
	default:
		vs = RandomValidStream(r, 400000)
	}
	want, serr := stdlibInflate(vs.S, nil)
	if serr != nil {
		c.Count("dropped:stdlib-rejects", 1)
		return
	}
	ref := refinf.Inflate(vs.S, refinf.Options{Strict: true})
	if ref.Status != refinf.Complete || !bytes.Equal(ref.Out, want) {
		c.Count("dropped:reference-disagrees-with-stdlib", 1)
		c.Extra("inconclusive", "reference inflater and compress/flate disagree: "+ref.String())
		return
	}
	style := gen.ReadStyles[r.Intn(len(gen.ReadStyles))]
	if len(want) > 100000 && (style == "1" || style == "2") {
		style = "7"
	}
	bsz := r.Pick(4096, 4096, 65536, 8192)
	src := bufioOf(bytes.NewReader(vs.S), bsz)
	rd := c.API.NewFlateReader(src)
	var got []byte
	var err error
	var bad string
	pv, st := mon.Safe(func() { got, err, bad = readAllSizes(rd, gen.ReadSizes(r, style), len(want)+1<<20) })
	c.Eval(1)
	desc := map[string]interface{}{"stream": vs.Desc, "stream_sha": mon.Sha(vs.S), "stream_len": len(vs.S), "plain_len": len(want), "read_style": style, "bufio": bsz, "mutation": mutated}
	if len(vs.S) <= 2048 {
		desc["stream_hex"] = mon.Hex(vs.S, 2048)
	}
	switch {
	case pv != nil:
		desc["stack"] = st
		c.Violate("panic|"+mon.PanicSite(st), fmt.Sprintf("Reader panicked on a valid stream: %v", pv), desc)
	case bad != "":
		c.Violate("read-contract", bad, desc)
	case err != io.EOF:
		c.Violate("valid-stream-rejected|"+errKind(err), fmt.Sprintf("compress/flate decodes %d bytes then io.EOF; fastgo returned %d bytes then %v", len(want), len(got), err), desc)
	case !bytes.Equal(got, want):
		c.Violate("wrong-bytes", fmt.Sprintf("decoded bytes differ from compress/flate's: %d vs %d bytes, first difference at %d", len(got), len(want), firstDiff(got, want)), desc)
	}
	if c.Violated() {
		return
	}
	shapeCounters(c, ref)
	c.Count("streams-decoded-identically", 1)
	c.Count("read-style:"+style, 1)
	if mutated != "" {
		c.Count("mutated-but-valid", 1)
	}
	if len(want) > 0 {
		c.Nontrivial(vs.S, style, bsz)
	}
	if i%211 == 0 {
		c.Sample(desc)
	}
}

func errKind(err error) string {
	k := implErrClass(err)
	if len(k) > 40 {
		k = k[:40]
	}
	return k
}
