package props

import (
	"bytes"
	"crypto/sha256"
	"fmt"
	"io"
	"sort"
	"strings"

	"fgverif/gen"
	"fgverif/impl"
	"fgverif/mon"
	"fgverif/refinf"
	"fgverif/synth"
)

// C18 — results do not depend on which CPU acceleration level is selected.
type c18 struct{}

func init() { register(c18{}) }

func (c18) ID() string            { return "C18" }
func (c18) EvidenceLevel() string { return "exploration" }
func (c18) Rule() string {
	return "every runnable dispatch level executes the same seed-determined case list in its own processes and logs, per case, the digest of the bytes handed out and the outcome kind (EOF, unexpected-EOF, corrupt, panic); an offline checker joins the logs on the case id and requires all levels to agree (and each child to have logged the level it was asked to run). Decode cases: valid, truncated, mutated and single-fault streams from the standard library and the synthesiser (never from fastgo's own writers, whose output may legitimately differ between levels), padded so that the AVX2 loop's entry condition (>= 25 input bytes, >= 275 bytes of output room) holds when the defect is reached, the same inputs in small chunks that keep it false, and outputs crossing the 64 KiB history wrap. Compress cases: decoded result and C01/C19/C20 verdicts per level must agree. Non-trivial: the case was executed at >= 2 levels and is not an empty input; distinct by input digest. Inputs include the synthesised corner shapes of the decoder (match-edge, window-edge, longest header, two deep sub-trees; a third of the match-edge streams also delivered in every possible two-piece split, so that the assembly loop runs out of input at every byte) and compress inputs that fill the token buffer exactly where a long match begins (all lengths 32700..32800 and 65300..65560 per accelerated setting) or re-enter the match finder with the token buffer nearly full. A further share of the compress cases sweeps 61 consecutive input sizes around an 8 KiB output-chunk boundary."
}
func (c18) NumCases(tier string) int {
	if tier == "thorough" {
		return 400000
	}
	return 20000
}

func (c18) Run(c *mon.Ctx, i int) {
	r := c.R
	if i%12 == 11 {
		// compress case
		s := accelSettings[r.Intn(len(accelSettings))]
		d := gen.RandomData(r, 250000)
		if r.Chance(1, 3) {
			// long tokens exercise the lane budgets of the SIMD token packers
			d = gen.Make(r, []string{"farcopy3", "farcopy2", "farcopy", "sparsematch", "farcopy3"}[r.Intn(5)], r.Range(40000, 200000))
		}
		ops := gen.Schedule(r, len(d.B), gen.FlushPositions(r, len(d.B)), gen.PartitionStyles[r.Intn(4)])
		if i%96 == 47 {
			// output-chunk boundary sweep (as in C01): the writers hand their output
			// to the destination in 8 KiB chunks; 61 consecutive input sizes around
			// the size at which the compressed block ends at a chunk boundary
			s = accelSettings[(i/96)%8]
			fam := []string{"uniform", "alpha16", "text", "nearuniform"}[(i/96/8)%4]
			mult := (i/96/32)%3 + 1
			data := gen.Make(r, fam, 70000).B
			var vs []string
			if probe, e := emit(c.API, s, data[:20000], []gen.Op{{Kind: "write", N: 20000}, {Kind: "close"}}); e == nil && len(probe) > 0 {
				center := int(float64(mult*8180) / (float64(len(probe)) / 20000))
				if center > 69000 {
					center = 69000
				}
				for n := center - 30; n <= center+30; n++ {
					if n < 1 {
						continue
					}
					o, e := emit(c.API, s, data[:n], []gen.Op{{Kind: "write", N: n}, {Kind: "close"}})
					c.Eval(1)
					vd := "write-error"
					if e == nil {
						if dec, e2 := stdlibInflate(o, nil); e2 != nil {
							vd = "decoded-error"
						} else if bytes.Equal(dec, data[:n]) {
							vd = "ok"
						} else {
							vd = fmt.Sprintf("decoded-differs(%d bytes for %d)", len(dec), n)
						}
					}
					// the sizes swept depend on the level's own compression ratio, so
					// only failures are recorded by size; the rest is a count
					if vd != "ok" {
						vs = append(vs, fmt.Sprintf("n%d:%s", n, vd))
					}
				}
			}
			if vs == nil {
				vs = []string{"all sizes round-trip"}
			}
			c.Extra("r", fmt.Sprint(vs))
			c.Extra("k", "compress-chunk-boundary-sweep "+s.String()+" "+fam)
			c.Count("compress-cases-around-an-output-chunk-boundary", 1)
			c.Nontrivial("compress-chunk-boundary", s.String(), fam, mult)
			return
		}
		if i%48 == 23 {
			// the token buffer fills exactly where a long match begins, or the match
			// finder is re-entered with the token buffer nearly full (the portable
			// fallback of the assembly levels): paths that exist at some levels only
			if r.Bool() {
				// sixteen lengths per case, every accelerated setting in turn
				s = accelSettings[(i/48)%8]
				k0 := (i / 48 / 8) * 16
				var vs []string
				for t := 0; t < 16; t++ {
					L := c01CapLens[(k0+t)%len(c01CapLens)]
					b := r.Bytes(L + 1200)
					v := byte(r.Intn(256))
					for j := L; j < L+r.Pick(300, 600, 900); j++ {
						b[j] = v
					}
					o, e := emit(c.API, s, b, []gen.Op{{Kind: "write", N: len(b)}, {Kind: "close"}})
					c.Eval(1)
					vd := "write-error"
					if e == nil {
						if dec, e2 := stdlibInflate(o, nil); e2 != nil {
							vd = "decoded-error"
						} else if bytes.Equal(dec, b) {
							vd = "ok"
						} else {
							vd = fmt.Sprintf("decoded-differs(%d bytes for %d)", len(dec), len(b))
						}
					}
					vs = append(vs, fmt.Sprintf("L%d:%s", L, vd))
				}
				c.Extra("r", fmt.Sprint(vs))
				c.Extra("k", "compress-token-cap-lengths "+s.String())
				c.Count("compress-cases-at-the-token-cap", 1)
				c.Nontrivial("compress-token-cap", s.String(), k0)
				return
			} else {
				centre := map[bool]int{true: 4000, false: 275}[s.Win4K]
				d = tokenCapFarCopy(r, centre-140+r.Intn(280), 80000, r.Pick(4097, 4098, 32769))
			}
			ops = []gen.Op{{Kind: "write", N: len(d.B)}, {Kind: "close"}}
			c.Count("compress-cases-at-the-token-cap", 1)
		}
		out, err := emit(c.API, s, d.B, ops)
		c.Eval(1)
		verdict := "write-error"
		if err == nil {
			sig, _, res := DecodeChecks(c.API, out, d.B, nil)
			W := 32768
			if s.Win4K {
				W = 4096
			}
			verdict = fmt.Sprintf("c01=%q c19=%v c20=%v", sig, res != nil && res.MaxDist <= W, len(out) <= len(d.B)+len(d.B)/32+256)
			if dec, e := stdlibInflate(out, nil); e == nil {
				verdict += " decoded=" + mon.Sha(dec)
			} else {
				verdict += " decoded-error"
			}
		}
		c.Extra("r", verdict)
		c.Extra("k", "compress "+s.String()+" "+d.Desc)
		c.Count("compress-cases", 1)
		if len(d.B) > 0 {
			c.Nontrivial("compress", s.String(), d.B, gen.OpsString(ops))
		}
		return
	}
	// decode case
	var in []byte
	kind := ""
	switch i % 12 {
	case 0, 1, 2:
		f := synth.Faults[r.Intn(len(synth.Faults))]
		st, _, _ := synth.Faulty(r, f, r.Pick(0, 1, 2, 9))
		in = append(st, make([]byte, r.Pick(0, 40, 40, 300))...)
		kind = "fault:" + f
	case 3, 4:
		vs := streamNoFastgo(r, 20000)
		in, _ = Mutate(r, vs.S)
		in = append(in, make([]byte, r.Pick(0, 40))...)
		kind = "mutated"
	case 5:
		vs := streamNoFastgo(r, 20000)
		k := 0
		if len(vs.S) > 0 {
			k = r.Intn(len(vs.S))
		}
		in = vs.S[:k]
		kind = "truncated"
	case 6:
		// history wrap inside the fast loop: long output from long matches, then a fault or the end
		s := synth.NewStream(r)
		s.Stored(false, r.Bytes(r.Range(1, 400)))
		var toks []synth.Token
		total := r.Range(60000, 140000)
		for n := 0; n < total; {
			l := r.Pick(258, 258, 200, 3, 17)
			toks = append(toks, synth.Match(l, r.Pick(1, 2, 3, 258, 300)))
			n += l
			if r.Chance(1, 10) {
				toks = append(toks, synth.Lit(byte(r.Intn(256))))
				n++
			}
		}
		if r.Bool() {
			toks = append(toks, synth.Match(100, 32768)) // legal only if enough output exists
		}
		if r.Chance(1, 3) {
			toks = append(toks, synth.Token{Kind: synth.TRawLL, Sym: 286})
		}
		s.Fixed(true, toks, true)
		in = append(s.W.Bytes(), make([]byte, 40)...)
		kind = "history-wrap"
	case 7:
		n := r.Pick(30, 64, 100, 300, 1000)
		in = r.Bytes(n)
		in[0] = in[0]&^6 | byte(r.Pick(2, 4))
		kind = "random"
	case 8:
		// synthesised corner shapes of the decoder (packed table entries meeting
		// the end of the 64 KiB output window, the longest header, two deep
		// sub-trees); with the chunked schedule below, input also runs out near them
		switch (i / 12) % 4 {
		case 0:
			in, _, kind = synth.MatchEdge(r, (i/48)%4, (i/192)%3, r.Pick(258, 258, 257), r.Pick(0, 0, 1, 2))
		case 1:
			in, _, kind = synth.WindowEdge(r, (i/48)%6, r.Range(1, 4), r.Pick(0, 0, 1, 2), r.Bool(), r.Chance(1, 4))
		case 2:
			in, _, kind = synth.MaxHeader(r, r.Pick(0, 0, 1, 5, 37), r.Bool())
		default:
			in, _, kind = synth.TwoDeepTrees(r, r.Bool())
		}
		kind = "shape:" + kind
		if len(kind) > 60 {
			kind = kind[:60]
		}
		c.Count("decode-cases-with-synthesised-corner-shapes", 1)
	default:
		vs := streamNoFastgo(r, 200000)
		in = vs.S
		kind = "valid"
	}
	var parts []string
	schedules := []string{"bufio-64k", "chunks"}
	if strings.HasPrefix(kind, "shape:") {
		// the corner lies at one place of the stream: let input run out around it
		// in several ways
		schedules = []string{"bufio-64k", "chunks", "chunks1", "chunks2"}
	}
	for si, sch := range schedules {
		var src interface{ Read([]byte) (int, error) }
		if sch != "bufio-64k" {
			cr := gen.New(uint64(i) + 99 + uint64(si)*7919)
			src = &chunkReader{data: append([]byte(nil), in...), next: func() int { return cr.Range(1, 20) }}
		} else {
			src = bufioOf(bytes.NewReader(in), 65536)
		}
		rd := c.API.NewFlateReader(src)
		rr := drain(rd, gen.ReadSizes(gen.New(uint64(i)), "random"), 64<<20)
		c.Eval(1)
		oc := impl.ErrClass(rr.err)
		if rr.panicV != nil {
			oc = "panic"
		}
		if rr.bad != "" {
			oc = "contract:" + rr.bad
		}
		if rr.sticky != "" {
			oc += "+not-sticky"
		}
		parts = append(parts, fmt.Sprintf("%s:%s:%d:%s", sch, oc, len(rr.out), mon.Sha(rr.out)))
	}
	if strings.HasPrefix(kind, "shape:match-edge") && (i/576)%3 == 0 {
		// every two-piece delivery of the (short) stream: the first piece is large
		// enough for the assembly loop to run and ends at every possible byte
		h := sha256.New()
		odd := map[string]int{}
		for k := 1; k < len(in) && k <= 600; k++ {
			src := &twoPiece{a: in[:k], b: in[k:]}
			rd := c.API.NewFlateReader(src)
			rr := drain(rd, func() int { return 1 << 16 }, 64<<20)
			oc := impl.ErrClass(rr.err)
			if rr.panicV != nil {
				oc = "panic"
			}
			fmt.Fprintf(h, "%d:%s:%d:%s;", k, oc, len(rr.out), mon.Sha(rr.out))
			odd[oc]++
		}
		c.Eval(1)
		parts = append(parts, fmt.Sprintf("two-piece-splits:%x:%v", h.Sum(nil)[:8], odd))
		c.Count("decode-cases-with-every-two-piece-split", 1)
	}
	c.Extra("r", fmt.Sprint(parts))
	c.Extra("k", kind)
	c.Count("decode-cases:"+kind, 1)
	if len(in) > 0 {
		c.Nontrivial("decode", in)
	}
	if i%1999 == 0 {
		c.Sample(map[string]interface{}{"kind": kind, "input_len": len(in), "input_sha": mon.Sha(in), "result_at_level": c.Level, "result": parts})
	}
}

// twoPiece delivers a, then b, then io.EOF, one piece per Read call at most.
type twoPiece struct{ a, b []byte }

func (t *twoPiece) Read(p []byte) (int, error) {
	if len(t.a) == 0 {
		t.a, t.b = t.b, nil
	}
	if len(t.a) == 0 {
		return 0, io.EOF
	}
	n := copy(p, t.a)
	t.a = t.a[n:]
	return n, nil
}

// streamNoFastgo draws a valid stream from the standard library or the synthesiser only.
func streamNoFastgo(r *gen.Rand, maxPlain int) *ValidStream {
	if r.Bool() {
		d := gen.RandomData(r, maxPlain)
		lvl := allLevels[r.Intn(len(allLevels))]
		vs, err := encodeWith(impl.Stdlib, Setting{Wrapper: "flate", Level: lvl}, d.B, gen.FlushPositions(r, len(d.B)))
		if err != nil {
			panic(err)
		}
		return vs
	}
	m := maxPlain
	if m > 200000 {
		m = 200000
	}
	st, plain, desc := synth.RandomValid(r, m)
	return &ValidStream{S: st, Plain: plain, Desc: desc}
}

// Offline joins the per-level logs on the case id.
func (c18) Offline(j *mon.Joined) {
	if len(j.Levels) < 2 {
		j.Inconclusive = append(j.Inconclusive, "fewer than two runnable dispatch levels: nothing to compare")
		return
	}
	joined, agree := 0, 0
	ids := make([]int, 0, len(j.CaseX))
	for id := range j.CaseX {
		ids = append(ids, id)
	}
	sort.Ints(ids)
	for _, id := range ids {
		m := j.CaseX[id]
		if len(m) < 2 {
			continue
		}
		joined++
		var keys []string
		for k := range m {
			keys = append(keys, k)
		}
		sort.Strings(keys)
		ref := fmt.Sprint(m[keys[0]]["r"])
		same := true
		for _, k := range keys[1:] {
			if fmt.Sprint(m[k]["r"]) != ref {
				same = false
				kind := fmt.Sprint(m[k]["k"])
				if len(kind) > 40 {
					kind = kind[:40]
				}
				var lv int
				fmt.Sscanf(k[len(k)-1:], "%d", &lv)
				j.AddViolation(mon.Violation{Prop: "C18", Sig: "level-dependent-result|" + kindClass(kind), Case: id, Level: lv, Flavour: "plain",
					What:   fmt.Sprintf("case %d (%s): %s gives %v but %s gives %v", id, kind, keys[0], ref, k, m[k]["r"]),
					Detail: map[string]interface{}{"results": m}}, "offline", "")
				break
			}
		}
		if same {
			agree++
		}
	}
	j.Counters["cases-joined-across-levels"] = int64(joined)
	j.Counters["cases-agreeing-at-all-levels"] = int64(agree)
	if joined == 0 {
		j.Inconclusive = append(j.Inconclusive, "no case was logged by two levels")
	}
}

func kindClass(k string) string {
	for i := 0; i < len(k); i++ {
		if k[i] == ' ' {
			return k[:i]
		}
	}
	return k
}

var _ = refinf.Complete
