package props

import (
	"bytes"
	"fmt"

	"fgverif/gen"
	"fgverif/impl"
	"fgverif/synth"
)

// ValidStream is a DEFLATE stream with the plaintext it stands for.
type ValidStream struct {
	S     []byte
	Plain []byte
	Desc  string
	// FlushEnds: byte offsets in S just after each sync-flush marker (prefixes
	// that decode to PlainAt[i] bytes of plaintext).
	FlushEnds []int
	PlainAt   []int
}

// encodeWith compresses data with api at a setting, flushing at the given
// plaintext offsets, and records the flush points in the output.
func encodeWith(api *impl.API, s Setting, data []byte, flushAt []int) (*ValidStream, error) {
	var b bytes.Buffer
	w, err := NewWriter(api, s, &b)
	if err != nil {
		return nil, err
	}
	vs := &ValidStream{Plain: data, Desc: fmt.Sprintf("%s-encoded %s flush@%v", api.Name, s, flushAt)}
	prev := 0
	for _, f := range flushAt {
		if f > len(data) {
			f = len(data)
		}
		if f < prev {
			f = prev
		}
		if _, err := w.Write(data[prev:f]); err != nil {
			return nil, err
		}
		if err := w.Flush(); err != nil {
			return nil, err
		}
		vs.FlushEnds = append(vs.FlushEnds, b.Len())
		vs.PlainAt = append(vs.PlainAt, f)
		prev = f
	}
	if _, err := w.Write(data[prev:]); err != nil {
		return nil, err
	}
	if err := w.Close(); err != nil {
		return nil, err
	}
	vs.S = append([]byte(nil), b.Bytes()...)
	return vs, nil
}

// RandomValidStream draws a valid raw DEFLATE stream from one of three
// encoder families: the standard library, fastgo's own writers, the
// synthesiser. maxPlain bounds the plaintext.
func RandomValidStream(r *gen.Rand, maxPlain int) *ValidStream {
	switch r.Intn(10) {
	case 0, 1, 2, 3:
		d := gen.RandomData(r, maxPlain)
		lvl := allLevels[r.Intn(len(allLevels))]
		vs, err := encodeWith(impl.Stdlib, Setting{Wrapper: "flate", Level: lvl}, d.B, gen.FlushPositions(r, len(d.B)))
		if err != nil {
			panic(err)
		}
		vs.Desc += " data " + d.Desc
		return vs
	case 4, 5:
		d := gen.RandomData(r, maxPlain)
		s := accelSettings[r.Intn(len(accelSettings))]
		vs, err := encodeWith(impl.Fastgo, s, d.B, gen.FlushPositions(r, len(d.B)))
		if err != nil {
			panic(err)
		}
		vs.Desc += " data " + d.Desc
		return vs
	default:
		m := maxPlain
		if m <= 0 || m > 200000 {
			m = 200000
		}
		if r.Chance(2, 3) {
			m = r.Pick(50, 500, 5000, 70000)
			if maxPlain > 0 && m > maxPlain {
				m = maxPlain
			}
		}
		st, plain, desc := synth.RandomValid(r, m)
		return &ValidStream{S: st, Plain: plain, Desc: "synth " + desc}
	}
}

// Mutate applies 1..3 bit flips or byte substitutions, biased to the first 40
// bytes where headers live.
func Mutate(r *gen.Rand, s []byte) ([]byte, string) {
	out := append([]byte(nil), s...)
	if len(out) == 0 {
		return out, "empty"
	}
	n := r.Range(1, 3)
	desc := ""
	for i := 0; i < n; i++ {
		pos := r.Intn(len(out))
		if r.Chance(2, 3) && len(out) > 1 {
			lim := 40
			if lim > len(out) {
				lim = len(out)
			}
			pos = r.Intn(lim)
		}
		if r.Bool() {
			bit := uint(r.Intn(8))
			out[pos] ^= 1 << bit
			desc += fmt.Sprintf("flip@%d.%d ", pos, bit)
		} else {
			v := byte(r.Intn(256))
			out[pos] = v
			desc += fmt.Sprintf("set@%d=%#x ", pos, v)
		}
	}
	return out, desc
}
