package props

import (
	"bytes"
	"context"
	"errors"
	"fmt"
	"io"
	"os"

	"fgverif/gen"
	"fgverif/impl"
	"fgverif/mon"
)

// C15 — a failing source is reported as such and never as success or
// corruption.
type c15 struct{}

func init() { register(c15{}) }

func (c15) ID() string            { return "C15" }
func (c15) EvidenceLevel() string { return "fault_enumeration" }
func (c15) Rule() string {
	return "fault enumeration: for each container (flate/gzip/zlib, valid, from both writers) the source fails after delivering k bytes, for every k < len when the container is <= 2000 bytes, else every k in the first and last 64 bytes plus 200 seeded positions; the error is returned alone or together with the last bytes; error values {fresh errors.New, io.ErrClosedPipe, wrapped errors incl. ones wrapping io.EOF, io.ErrNoProgress, deadline errors, an error of uncomparable dynamic type}; hand-built gzip members carry FHCRC and Extra fields up to 65535 bytes. The Reader (or its constructor) must end in an error satisfying errors.Is(err, E) that is none of io.EOF, io.ErrUnexpectedEOF, CorruptInputError, ErrChecksum, ErrHeader; every byte returned before is a payload prefix; two more Reads return (0, the same error). Non-trivial: k > 0; distinct by (container digest, k, delivery mode)."
}
func (c15) NumCases(tier string) int {
	if tier == "thorough" {
		return 3000
	}
	return 120
}
func (c15) ExhaustiveScope(string) string {
	return "fault positions: every k < len for containers of at most 2000 bytes (count in observations: containers-enumerated-at-every-position); containers themselves are sampled"
}

// timeoutErr looks like a deadline error (net.Error): Timeout() is true.
type timeoutErr struct{}

func (timeoutErr) Error() string   { return "c15: i/o timeout" }
func (timeoutErr) Timeout() bool   { return true }
func (timeoutErr) Temporary() bool { return true }

type wrapErr struct{ inner error }

func (w wrapErr) Error() string { return "wrapped: " + w.inner.Error() }
func (w wrapErr) Unwrap() error { return w.inner }

// failingSource delivers k bytes, then fails with E (together with the last
// bytes when withData).
type failingSource struct {
	data     []byte
	next     func() int
	E        error
	withData bool
	fails    int
	// recover: after failing once the source carries on with these bytes (a
	// deadline that was extended, a retried connection). A Reader that honours
	// "later Reads keep returning the same error" never gets to see them.
	recover []byte
}

func (f *failingSource) Read(p []byte) (int, error) {
	if len(f.data) == 0 && f.fails > 0 && len(f.recover) > 0 {
		n := copy(p, f.recover)
		f.recover = f.recover[n:]
		return n, nil
	}
	if len(f.data) == 0 {
		f.fails++
		return 0, f.E
	}
	n := f.next()
	if n < 1 {
		n = 1
	}
	if n > len(p) {
		n = len(p)
	}
	if n > len(f.data) {
		n = len(f.data)
	}
	copy(p, f.data[:n])
	f.data = f.data[n:]
	if len(f.data) == 0 && f.withData {
		f.fails++
		return n, f.E
	}
	return n, nil
}

func (c15) Run(c *mon.Ctx, i int) {
	r := c.R
	kind := []string{"flate", "gzip", "zlib"}[i%3]
	max := 3000
	if i%4 == 3 {
		max = 120000
	}
	d := gen.RandomData(r, max)
	enc := impl.Stdlib
	if r.Bool() {
		enc = c.API
	}
	lvl := allLevels[r.Intn(len(allLevels))]
	vs, err := encodeWith(enc, Setting{Wrapper: kind, Level: lvl}, d.B, gen.FlushPositions(r, len(d.B)))
	if err != nil {
		c.Count("dropped:encode-error", 1)
		return
	}
	cont := vs.S
	var zdict, openDict []byte
	if kind == "zlib" && r.Chance(1, 3) {
		// a stream that names a preset dictionary, opened with or without it
		zdict = []byte("the dictionary this stream was written with, compress deflate window")
		d = gen.Make(r, "text", r.Range(1, 3000))
		cont = encodeStdZlib(d.B, r.Pick(1, 6), zdict)
		openDict = zdict
		if r.Bool() {
			openDict = nil // then only the header and the dictionary id are read
		}
		c.Count("zlib-streams-with-preset-dictionary", 1)
	}
	if kind == "gzip" && zdict == nil && i%6 == 1 {
		// header CRC present: bytes only a hand-built member has
		d = gen.Make(r, "text", r.Range(0, 1500))
		cont = handBuiltGzipMember(r, d.B, r.Pick(1, 6))
		c.Count("hand-built-gzip-members-with-header-crc", 1)
	}
	if kind == "gzip" && r.Chance(1, 3) {
		// a second member: faults between and inside members of a multistream file
		extra := gen.Make(r, "text", r.Range(0, 2000))
		cont = append(append([]byte(nil), cont...), encodeStdGzip(extra.B, r.Pick(1, 6))...)
		d = gen.Data{Desc: d.Desc + "+" + extra.Desc, B: append(append([]byte(nil), d.B...), extra.B...)}
		c.Count("two-member-gzip-containers", 1)
	}
	var ks []int
	if len(cont) <= 2000 {
		for k := 0; k < len(cont); k++ {
			ks = append(ks, k)
		}
		c.Count("containers-enumerated-at-every-position", 1)
	} else {
		for k := 0; k < 64; k++ {
			ks = append(ks, k, len(cont)-1-k)
		}
		for k := 0; k < 200; k++ {
			ks = append(ks, r.Intn(len(cont)))
		}
	}
	if zdict != nil && openDict == nil {
		// without the dictionary the Reader legitimately stops with ErrDictionary
		// once it has read the 6 header bytes: only earlier faults are judged
		ks = []int{0, 1, 2, 3, 4, 5}
	}
	base := errors.New("c15: injected source failure")
	// including errors that merely wrap io.EOF / io.ErrUnexpectedEOF: they are not
	// end-of-input and must come back as themselves
	errVals := []error{base, io.ErrClosedPipe, wrapErr{base}, io.ErrNoProgress, wrapErr{io.EOF}, fmt.Errorf("read tcp: %w", io.ErrUnexpectedEOF), wrapErr{io.EOF},
		os.ErrDeadlineExceeded, timeoutErr{}, context.DeadlineExceeded, sliceErr{"c15: injected source failure of an uncomparable type"}}
	baseDesc := map[string]interface{}{"reader": kind, "container": vs.Desc, "data": d.Desc, "container_len": len(cont), "container_sha": mon.Sha(cont)}
	for kpos, k := range ks {
		E := errVals[r.Intn(len(errVals))]
		withData := r.Bool() && k > 0
		chunk := r.Pick(1, 7, 100, 4096, 1<<20)
		src := &failingSource{data: append([]byte(nil), cont[:k]...), next: func() int { return chunk }, E: E, withData: withData}
		if r.Bool() {
			src.recover = append([]byte(nil), cont[k:]...)
		}
		var in io.Reader = src
		tr := r.Intn(4)
		switch tr {
		case 1:
			in = bufioOf(src, 64)
		case 2:
			in = bufioOf(src, 4096)
		}
		style := gen.ReadStyles[r.Intn(len(gen.ReadStyles))]
		if len(d.B) > 20000 && (style == "1" || style == "2") {
			style = "512"
		}
		var out []byte
		var ferr error
		var sticky, bad string
		pv, st := mon.Safe(func() {
			var rd io.Reader
			viaReset := kpos%4 == 3 && zdict == nil
			if viaReset {
				// a Reader that was in the middle of another stream (or had failed on
				// it) is Reset onto the failing source: the error of Reset is the
				// first report, Reads after it must keep returning it
				prevPlain := bytes.Repeat([]byte("earlier stream "), 3000)
				var e error
				switch kind {
				case "flate":
					f := c.API.NewFlateReader(bytes.NewReader(encodeStd(prevPlain, 6, nil)))
					f.Read(make([]byte, 100))
					e = f.Reset(in, nil)
					rd = f
				case "gzip":
					z, _ := c.API.NewGzipReader(bytes.NewReader(encodeStdGzip(prevPlain, 6)))
					z.Read(make([]byte, 100))
					e = z.Reset(in)
					rd = z
				case "zlib":
					z, _ := c.API.NewZlibReader(bytes.NewReader(encodeStdZlib(prevPlain, 6, nil)))
					z.Read(make([]byte, 100))
					e = z.Reset(in, nil)
					rd = z
				}
				if e != nil {
					// Reset reported it: the Reader must now be in that error state
					p := make([]byte, 64)
					n, e2 := rd.Read(p)
					if n != 0 || e2 == nil {
						out = p[:n]
						ferr = nil
						sticky = fmt.Sprintf("Reset onto the failing source returned %v, but the next Read returned (%d, %v): data of the earlier stream or success after a failed Reset", e, n, e2)
						if e2 != nil {
							ferr = e2
						}
						if n != 0 {
							bad = "Read after a failed Reset returned bytes of the earlier stream"
						}
						return
					}
					ferr = e
					return
				}
				rr := drain(rd, gen.ReadSizes(r, style), len(d.B)+1<<20)
				if rr.panicV != nil {
					panic(fmt.Sprintf("%v at %s", rr.panicV, rr.stack))
				}
				out, ferr, sticky, bad = rr.out, rr.err, rr.sticky, rr.bad
				return
			}
			switch kind {
			case "flate":
				rd = c.API.NewFlateReader(in)
			case "gzip":
				z, e := c.API.NewGzipReader(in)
				if e != nil {
					ferr = e
					return
				}
				rd = z
			case "zlib":
				var z impl.ZlibReader
				var e error
				if zdict != nil {
					z, e = c.API.NewZlibReaderDict(in, openDict)
				} else {
					z, e = c.API.NewZlibReader(in)
				}
				if e != nil {
					ferr = e
					return
				}
				rd = z
			}
			rr := drain(rd, gen.ReadSizes(r, style), len(d.B)+1<<20)
			if rr.panicV != nil {
				panic(fmt.Sprintf("%v at %s", rr.panicV, rr.stack))
			}
			out, ferr, sticky, bad = rr.out, rr.err, rr.sticky, rr.bad
		})
		c.Eval(1)
		where := fmt.Sprintf("reader=%s|with-data=%v", kind, withData)
		desc := map[string]interface{}{"k": k, "error_value": fmt.Sprint(E), "with_last_bytes": withData, "source_chunk": chunk, "transport": tr, "read_style": style,
			"got": fmt.Sprintf("%d bytes, err=%v", len(out), ferr)}
		for a, b := range baseDesc {
			desc[a] = b
		}
		switch {
		case pv != nil:
			desc["stack"] = st
			c.Violate("panic|"+where, fmt.Sprintf("panicked: %v", pv), desc)
		case bad != "":
			c.Violate("read-contract|"+where, bad, desc)
		case !isPrefix(out, d.B):
			c.Violate("non-payload-bytes|"+where, fmt.Sprintf("source failed after %d of %d bytes; the reader returned bytes that are not a payload prefix (first difference at %d)", k, len(cont), firstDiff(out, d.B)), desc)
		case ferr == nil:
			c.Violate("no-error|"+where, "reader stopped without an error", desc)
		case !errors.Is(ferr, E) || ferr == io.EOF || ferr == io.ErrUnexpectedEOF || (errors.Is(E, io.EOF) || errors.Is(E, io.ErrUnexpectedEOF)) && !sameErr(ferr, E):
			c.Violate("source-error-replaced|"+where+"|"+errKind(ferr), fmt.Sprintf("source failed with %q after %d of %d bytes; the reader reported %v", E, k, len(cont), ferr), desc)
		case sticky != "":
			c.Violate("error-not-sticky|"+where, sticky, desc)
		}
		if c.Violated() {
			return
		}
		c.Count("fault-positions-held", 1)
		if withData {
			c.Count("error-delivered-with-last-bytes", 1)
		}
		if k > 0 {
			c.Nontrivial(cont, k, withData)
		}
	}
	c.Count("reader:"+kind, 1)
	if i%17 == 0 {
		baseDesc["positions_enumerated"] = len(ks)
		c.Sample(baseDesc)
	}
}

var _ = bytes.Equal

// sameErr: ferr is E itself or wraps it (identity somewhere in the chain), as
// opposed to merely matching one of E's own wrapped sentinels.
func sameErr(ferr, E error) bool {
	for e := ferr; e != nil; e = errors.Unwrap(e) {
		if e == E {
			return true
		}
	}
	return false
}
