package props

import (
	"errors"
	"fmt"

	"fgverif/gen"
	"fgverif/impl"
	"fgverif/mon"
)

// C14 — a failing destination is reported, sticks, and never leads to a bad
// state.
type c14 struct{}

func init() { register(c14{}) }

func (c14) ID() string            { return "C14" }
func (c14) EvidenceLevel() string { return "fault_enumeration" }
func (c14) Rule() string {
	return "fault enumeration: for each operation sequence (one big Write; many small Writes; Write/Flush alternation; Close with pending tokens; Huffman-only blocks of more than 8 KiB output so that failures land between chunks of one block; each followed by 3 further random ops) on flate/gzip/zlib at levels -2..9 and both windows, the fault-free run counts N destination calls; then the destination fails at call k, for every k in 1..N when N <= 200, else k in 1..64, the last 16 and 64 seeded indices, returning (0,E), (len(p)/2,E) or (len(p),E); E is a plain error, a timeout-typed error or an error of uncomparable dynamic type; a third of the faults are transient (only call k fails); gzip Writers carry header variants (default, empty non-nil Extra, short and 65535-byte Extra, Name/Comment). The op in progress must return an error with errors.Is(err,E); every later Write/Flush/Close must fail; the destination must not be called again; no panic; red zones intact; after Reset onto a good destination the Writer must produce a valid stream. The fault-free run itself must pass the C01 oracle. Non-trivial: a (sequence, k) pair in which the failure happened; distinct by (setting, data digest, ops, k, mode)."
}
func (c14) NumCases(tier string) int {
	if tier == "thorough" {
		return 5000
	}
	return 220
}
func (c14) ExhaustiveScope(string) string {
	return "fault indices: every destination call index 1..N for sequences with N <= 200 destination calls (count in observations: sequences-with-every-index-enumerated); operation sequences themselves are sampled"
}
func (c14) Plan(tier string) []mon.RunSpec {
	if tier == "thorough" {
		return []mon.RunSpec{{Flavour: "plain"}, {Flavour: "checkptr", Every: 2}, {Flavour: "asan", Every: 25}}
	}
	return []mon.RunSpec{{Flavour: "plain"}, {Flavour: "checkptr", Every: 2}}
}

// endurance: one long-lived Writer (a pooled one on a flaky connection) goes
// through many failure/Reset cycles, the failure landing in block data; it
// must neither panic nor degrade: the stream written after the last Reset is
// checked like any other.
func (c14) endurance(c *mon.Ctx) {
	r := c.R
	s := accelSettings[r.Intn(len(accelSettings))]
	s.Wrapper = []string{"flate", "gzip", "zlib"}[r.Intn(3)]
	if s.Wrapper != "flate" {
		s.Win4K = false
	}
	w, err := NewWriter(c.API, s, &Sink{})
	if err != nil {
		return
	}
	g, _ := w.(impl.Guarded)
	if g != nil {
		g.InstallGuards()
		defer g.DropGuards()
	}
	desc := map[string]interface{}{"setting": s.String(), "shape": "endurance: 1200 failure/Reset cycles on one Writer"}
	data := gen.Make(r, "uniform", 30000).B
	E := errors.New("c14: destination failed")
	for cyc := 0; cyc < 1200; cyc++ {
		sink := &Sink{FailAt: r.Range(1, 4), FailErr: E, Partial: cyc%3 == 1, FullCount: cyc%3 == 2}
		var e1, e2 error
		pv, st := mon.Safe(func() {
			w.Reset(sink)
			_, e1 = w.Write(data)
			e2 = w.Close()
		})
		c.Eval(1)
		if pv != nil {
			desc["stack"], desc["cycle"] = st, cyc
			c.Violate("panic|endurance|"+s.Wrapper+"|"+mon.PanicSite(st), fmt.Sprintf("%s: cycle %d of failing write + Reset on one Writer panicked: %v", s, cyc, pv), desc)
			return
		}
		if sink.failed && e1 == nil && e2 == nil {
			desc["cycle"] = cyc
			c.Violate("failure-not-reported|endurance|"+s.Wrapper, fmt.Sprintf("%s: cycle %d: destination failed but Write and Close returned nil", s, cyc), desc)
			return
		}
		if g != nil {
			g.InstallGuards()
			if e := g.CheckGuards(); e != nil {
				c.Violate("redzone|endurance|"+s.Wrapper, e.Error(), desc)
				return
			}
		}
	}
	good := &Sink{}
	var e1, e2 error
	pv, st := mon.Safe(func() {
		w.Reset(good)
		_, e1 = w.Write(data)
		e2 = w.Close()
	})
	if pv != nil {
		desc["stack"] = st
		c.Violate("panic|endurance-final|"+s.Wrapper+"|"+mon.PanicSite(st), fmt.Sprintf("%s: after 1200 failure/Reset cycles a normal stream panicked: %v", s, pv), desc)
		return
	}
	raw, ok := good.Buf.Bytes(), e1 == nil && e2 == nil
	if ok {
		switch s.Wrapper {
		case "gzip":
			raw, ok = gzipDeflatePart(raw)
		case "zlib":
			raw, ok = zlibDeflatePart(raw)
		}
	}
	if !ok {
		c.Violate("unusable-after-endurance|"+s.Wrapper, fmt.Sprintf("%s: after 1200 failure/Reset cycles: Write err=%v Close err=%v", s, e1, e2), desc)
		return
	}
	if sig, what, _ := DecodeChecks(c.API, raw, data, nil); sig != "" {
		c.Violate("invalid-after-endurance|"+sig+"|"+s.Wrapper, what, desc)
		return
	}
	c.Count("endurance-runs-held", 1)
	c.Nontrivial("endurance", s.String(), data)
}

func (p c14) Run(c *mon.Ctx, i int) {
	if i%20 == 19 {
		p.endurance(c)
		return
	}
	r := c.R
	s := Setting{Wrapper: []string{"flate", "flate", "gzip", "zlib"}[i%4]}
	if r.Chance(4, 5) {
		s.Level = accelLevels[r.Intn(4)]
	} else {
		s.Level = allLevels[r.Intn(len(allLevels))]
	}
	if s.Wrapper == "flate" {
		s.Win4K = r.Chance(1, 3)
	}
	if s.Wrapper == "gzip" {
		s.Hdr = gzipHeaderVariant(r, i/4)
	}
	if s.Wrapper == "zlib" && r.Chance(1, 3) {
		s.Dict = []byte("a preset dictionary: header plus four more bytes to write")
	}
	W := 32768
	if s.Win4K {
		W = 4096
	}
	ro := 2*W + 258
	var d gen.Data
	var ops []gen.Op
	shape := []string{"one-big-write", "many-small-writes", "write-flush-alternation", "close-with-pending-tokens", "huffonly-multichunk"}[i%5]
	switch shape {
	case "one-big-write":
		d = gen.Make(r, gen.Families[r.Intn(len(gen.Families))], 2*ro+r.Range(0, 100000))
		ops = []gen.Op{{Kind: "write", N: len(d.B)}}
	case "many-small-writes":
		d = gen.Make(r, gen.Families[r.Intn(len(gen.Families))], r.Range(1, 3*ro))
		ops = gen.Schedule(r, len(d.B), nil, "random")
		ops = ops[:len(ops)-1]
	case "write-flush-alternation":
		d = gen.Make(r, gen.Families[r.Intn(len(gen.Families))], r.Range(1, 40000))
		for left := len(d.B); left > 0; {
			k := r.Range(1, 9000)
			if k > left {
				k = left
			}
			ops = append(ops, gen.Op{Kind: "write", N: k}, gen.Op{Kind: "flush"})
			left -= k
		}
	case "close-with-pending-tokens":
		d = gen.Make(r, []string{"uniform", "text", "alpha16"}[r.Intn(3)], ro+r.Range(1, ro))
		ops = []gen.Op{{Kind: "write", N: len(d.B)}}
	default:
		s.Level = -2
		d = gen.Make(r, []string{"uniform", "nearuniform", "geom"}[r.Intn(3)], r.Range(20000, 200000))
		ops = []gen.Op{{Kind: "write", N: len(d.B)}}
		if r.Bool() {
			ops = append(ops, gen.Op{Kind: "flush"})
		}
	}
	if !s.Accelerated() && len(d.B) > 30000 {
		// levels delegated to compress/flate: its chained match finder is very slow
		// on some of the data families, and every fault index repeats the sequence
		d = gen.Data{Desc: d.Desc + "[:30000]", B: d.B[:30000]}
		var o2 []gen.Op
		left := 30000
		for _, o := range ops {
			if o.Kind == "write" {
				if o.N > left {
					o.N = left
				}
				left -= o.N
			}
			o2 = append(o2, o)
		}
		ops = o2
	}
	// three further random ops, then Close
	tail := []gen.Op{}
	extra := gen.Make(r, "text", 3000).B
	for k := 0; k < 3; k++ {
		switch r.Intn(3) {
		case 0:
			tail = append(tail, gen.Op{Kind: "write", N: r.Range(0, 1000)})
		case 1:
			tail = append(tail, gen.Op{Kind: "flush"})
		default:
			tail = append(tail, gen.Op{Kind: "close"})
		}
	}
	all := append(append([]byte(nil), d.B...), extra...)
	full := append(append([]gen.Op(nil), ops...), tail...)
	full = append(full, gen.Op{Kind: "close"})
	desc := map[string]interface{}{"setting": s.String(), "shape": shape, "data": d.Desc, "data_sha": mon.Sha(d.B), "ops": gen.OpsString(full)}

	run := func(sink *Sink, check bool) (errs []error, w impl.Writer, pv interface{}, st string, guardErr error) {
		w, err := NewWriter(c.API, s, sink)
		if err != nil {
			return nil, nil, nil, "", nil
		}
		g, _ := w.(impl.Guarded)
		if g != nil {
			g.InstallGuards()
		}
		pos := 0
		pv, st = mon.Safe(func() {
			for _, o := range full {
				var e error
				switch o.Kind {
				case "write":
					_, e = w.Write(all[pos : pos+o.N])
					pos += o.N
				case "flush":
					e = w.Flush()
				case "close":
					e = w.Close()
				}
				errs = append(errs, e)
				if g != nil && guardErr == nil {
					g.InstallGuards()
					guardErr = g.CheckGuards()
				}
			}
		})
		return
	}
	// fault-free run
	good := &Sink{}
	errs, w0, pv, st, ge := run(good, true)
	if w0 == nil {
		return
	}
	if g, ok := w0.(impl.Guarded); ok {
		defer g.DropGuards()
	}
	c.Eval(1)
	if pv != nil {
		desc["stack"] = st
		c.Violate("panic|fault-free|"+mon.PanicSite(st), fmt.Sprintf("fault-free run panicked: %v", pv), desc)
		return
	}
	if ge != nil {
		c.Violate("redzone|fault-free|"+s.Wrapper, ge.Error(), desc)
		return
	}
	// converse clause: if every op up to and including the first Close returned nil, the stream is valid
	firstClose, okAll, dataLen := -1, true, 0
	for k, o := range full {
		if errs[k] != nil {
			okAll = false
			break
		}
		if o.Kind == "write" {
			dataLen += o.N
		}
		if o.Kind == "close" {
			firstClose = k
			break
		}
	}
	N := good.Calls
	if okAll && firstClose >= 0 {
		// bytes up to the first Close: re-run to capture exactly (cheap: same deterministic ops)
		cap := &Sink{}
		w, _ := NewWriter(c.API, s, cap)
		pos := 0
		for _, o := range full[:firstClose+1] {
			switch o.Kind {
			case "write":
				w.Write(all[pos : pos+o.N])
				pos += o.N
			case "flush":
				w.Flush()
			case "close":
				w.Close()
			}
		}
		N = cap.Calls
		raw, ok := cap.Buf.Bytes(), true
		switch s.Wrapper {
		case "gzip":
			raw, ok = gzipDeflatePart(raw)
		case "zlib":
			raw, ok = zlibDeflatePart(raw)
		}
		if !ok {
			c.Violate("fault-free-stream|container-too-short|"+s.Wrapper, "container shorter than header plus trailer", desc)
			return
		}
		if sig, what, res := DecodeChecks(c.API, raw, all[:dataLen], s.Dict); sig != "" && !(sig == "ref-wrong-data" && isDelegatedDictReplay(res.Out, all[:dataLen], s.Dict)) {
			c.Violate("fault-free-stream|"+sig+"|"+s.Wrapper, fmt.Sprintf("every call returned nil but: %s", what), desc)
			return
		}
		c.Count("fault-free-streams-valid", 1)
	}
	// fault indices
	var ks []int
	if N <= 200 {
		for k := 1; k <= N; k++ {
			ks = append(ks, k)
		}
		c.Count("sequences-with-every-index-enumerated", 1)
	} else {
		for k := 1; k <= 64; k++ {
			ks = append(ks, k)
		}
		for k := N - 15; k <= N; k++ {
			ks = append(ks, k)
		}
		for k := 0; k < 64; k++ {
			ks = append(ks, r.Range(65, N-16))
		}
	}
	for _, k := range ks {
		E, ekind := faultError(k+i, fmt.Sprintf("c14: destination failed at call %d", k))
		partial := r.Bool()
		fullCnt := !partial && r.Bool()
		// a transient fault: only call k fails, the destination works again
		// afterwards (a Writer that lost the error goes on writing to it)
		transient := (k+i/5)%3 == 0
		sink := &Sink{FailAt: k, FailErr: E, Partial: partial, FullCount: fullCnt, Transient: transient}
		errs, w, pv, st, ge := run(sink, false)
		if w == nil {
			return
		}
		if g, ok := w.(impl.Guarded); ok {
			defer g.DropGuards()
		}
		c.Eval(1)
		d2 := map[string]interface{}{"fail_at_call": k, "destination_calls_fault_free": N, "partial_write": partial, "full_count_with_error": fullCnt, "error_kind": ekind, "transient_fault": transient}
		c.Count("fault-error-kind:"+ekind, 1)
		if transient {
			c.Count("transient-faults", 1)
		}
		for a, b := range desc {
			d2[a] = b
		}
		where := fmt.Sprintf("%s|huffonly=%v", s.Wrapper, s.Level == -2)
		if !s.Accelerated() {
			where += "|delegated"
		}
		if pv != nil {
			d2["stack"] = st
			c.Violate("panic|"+where+"|"+mon.PanicSite(st), fmt.Sprintf("panicked with the destination failing at call %d: %v", k, pv), d2)
			return
		}
		if ge != nil {
			c.Violate("redzone|"+where, fmt.Sprintf("destination failing at call %d: %v", k, ge), d2)
			return
		}
		if !sink.failed {
			continue // the sequence ended (first Close) before call k
		}
		// find the op during which the failure happened: the first op returning non-nil
		first := -1
		for j, e := range errs {
			if e != nil {
				first = j
				break
			}
		}
		switch {
		case first < 0:
			c.Violate("failure-not-reported|"+where, fmt.Sprintf("destination failed at call %d but every operation returned nil", k), d2)
			return
		case !errors.Is(errs[first], E):
			// Either the failure was swallowed earlier (an op returned nil while the
			// destination had failed) or the error was substituted.
			c.Violate("failure-substituted|"+where+"|op="+full[first].Kind, fmt.Sprintf("destination failed at call %d with %q; first failing op (%s, index %d) returned %v", k, E, full[first].Kind, first, errs[first]), d2)
			return
		}
		for j := first + 1; j < len(errs); j++ {
			if errs[j] == nil {
				c.Violate(fmt.Sprintf("error-not-sticky|%s|failed-in=%s|later-op=%s", where, full[first].Kind, full[j].Kind), fmt.Sprintf("destination failed at call %d during op %d (%s), but the later op %d (%s) returned nil", k, first, full[first].Kind, j, full[j].Kind), d2)
				return
			}
		}
		if sink.AfterFail > 0 {
			c.Violate(fmt.Sprintf("destination-called-after-failure|%s|failed-in=%s", where, full[first].Kind), fmt.Sprintf("destination failed at call %d during op %d (%s) and was called %d more times before Reset", k, first, full[first].Kind, sink.AfterFail), d2)
			return
		}
		// after Reset the writer must be usable
		if k%7 == 0 {
			after := &Sink{}
			var e1, e2 error
			extra := extra
			if r.Bool() {
				extra = nil // an empty stream: Close straight after Reset
			}
			pv, st := mon.Safe(func() {
				w.Reset(after)
				if extra != nil {
					_, e1 = w.Write(extra)
				}
				e2 = w.Close()
			})
			if pv != nil {
				d2["stack"] = st
				c.Violate("panic-after-reset|"+where, fmt.Sprintf("panicked after failure at call %d and Reset: %v", k, pv), d2)
				return
			}
			raw, ok := after.Buf.Bytes(), e1 == nil && e2 == nil
			if ok {
				switch s.Wrapper {
				case "gzip":
					raw, ok = gzipDeflatePart(raw)
				case "zlib":
					raw, ok = zlibDeflatePart(raw)
				}
			}
			if !ok {
				c.Violate("unusable-after-reset|"+where, fmt.Sprintf("after failure at call %d and Reset: Write err=%v Close err=%v", k, e1, e2), d2)
				return
			}
			if sig, what, res := DecodeChecks(c.API, raw, extra, s.Dict); sig != "" && !(sig == "ref-wrong-data" && isDelegatedDictReplay(res.Out, extra, s.Dict)) {
				c.Violate("invalid-after-reset|"+sig+"|"+where, fmt.Sprintf("after failure at call %d and Reset: %s", k, what), d2)
				return
			}
			c.Count("reset-after-failure-valid", 1)
		}
		c.Count("fault-indices-held", 1)
		c.Count("failed-in:"+full[first].Kind, 1)
		c.Nontrivial(s.String(), d.B, gen.OpsString(full), k, partial)
	}
	c.Count("shape:"+shape, 1)
	c.Count("wrapper:"+s.Wrapper, 1)
	if i%23 == 0 {
		desc["destination_calls"] = N
		desc["fault_indices"] = len(ks)
		c.Sample(desc)
	}
}
