package props

import (
	"bytes"
	"fmt"
	"io"

	"fgverif/gen"
	"fgverif/impl"
	"fgverif/mon"
	"fgverif/refinf"
	"fgverif/synth"
)

// C03 — malformed input is rejected: no panic, no hang, no invented data,
// stdlib errors.
type c03 struct{}

func init() { register(c03{}) }

func (c03) ID() string            { return "C03" }
func (c03) EvidenceLevel() string { return "exploration" }
func (c03) Rule() string {
	return "case = one byte string (random with forced block type; 1-3 bit/byte mutations of a valid stream; a valid synthesised stream with exactly one injected fault, optionally after blocks that filled the same table entries; a truncation of a valid stream), read in a fresh Reader and again as a later stream of a reused Reader whose previous stream was completed, abandoned with undelivered output, or failed. Oracle: no panic/crash/CPU-budget overrun; io.EOF only if the permissive reference completes, with identical bytes; output always a prefix of the reference's; error kind in {EOF, UnexpectedEOF, CorruptInputError} with the statement's assignment; the error is sticky. Non-trivial: the input is not accepted as a complete stream by compress/flate; distinct by input digest and placement."
}
func (c03) NumCases(tier string) int {
	if tier == "thorough" {
		return 600000
	}
	return 24000
}
func (c03) Plan(tier string) []mon.RunSpec {
	if tier == "thorough" {
		return []mon.RunSpec{{Flavour: "plain"}, {Flavour: "checkptr", Every: 10}}
	}
	return []mon.RunSpec{{Flavour: "plain"}}
}
func (c03) CaseCPUBudget(string) float64 { return 300 }
func (c03) Assumptions() []string {
	return []string{
		"the permissive reference inflater is the most liberal reading of RFC 1951 (upper bound on acceptance and on bytes); compress/flate is the lower bound; the two are cross-checked on every input",
		"termination is decided by a per-case CPU-time budget (300 CPU-seconds, scaled for sanitizer builds, where a legitimate case needs milliseconds; children run with GOMAXPROCS=2 so that idle scheduler spinning cannot inflate it)",
	}
}

type c03Input struct {
	B        []byte
	Kind     string
	Desc     string
	PrefixOf []byte // when B is a proper prefix of a stream compress/flate accepts: that stream's plaintext
	IsPrefix bool
}

func c03Gen(r *gen.Rand, i int) c03Input {
	switch i % 8 {
	case 0:
		// random bytes, first block type forced to fixed or dynamic (or left alone)
		n := r.Pick(1, 2, 3, 5, 8, 16, 40, 64, 100, 300, 1000)
		b := r.Bytes(n)
		switch r.Intn(3) {
		case 0:
			b[0] = b[0]&^6 | 2 // fixed
		case 1:
			b[0] = b[0]&^6 | 4 // dynamic
		}
		return c03Input{B: b, Kind: "random", Desc: fmt.Sprintf("random/%d type-bits=%d", n, b[0]>>1&3)}
	case 1, 2:
		vs := RandomValidStream(r, 20000)
		m, d := Mutate(r, vs.S)
		return c03Input{B: m, Kind: "mutated", Desc: "mutated(" + d + ") of " + vs.Desc}
	case 3, 4, 5:
		f := synth.Faults[r.Intn(len(synth.Faults))]
		before := r.Pick(0, 0, 1, 1, 2, 9)
		st, _, d := synth.Faulty(r, f, before)
		switch r.Intn(3) {
		case 0:
			st = append(st, make([]byte, 40)...)
		case 1:
			st = append(st, r.Bytes(r.Range(1, 64))...)
		}
		return c03Input{B: st, Kind: "fault:" + f, Desc: d}
	case 7:
		// small dynamic blocks with 1-2 bit flips inside the header and then a
		// cut anywhere: the header reader's own end-of-input and validity tests
		// meet within a few bytes
		s := synth.NewStream(r)
		toks := synth.RandomTokens(r, 0, r.Range(0, 12), "mixed")
		o := synth.CodeOpts{MaxLit: r.Range(1, 15), MaxDist: r.Range(1, 15), ExtraLit: r.Pick(0, 0, 3, 40, 285), ExtraDist: r.Pick(0, 0, 2, 29), FullHLIT: r.Bool()}
		lit, dist := synth.LengthsFor(r, toks, o)
		sp := synth.NewDynSpec()
		sp.LitLens, sp.DistLens = lit, dist
		sp.RLE = []string{"greedy", "none", "random"}[r.Intn(3)]
		sp.Cross = r.Bool()
		s.Dynamic(r.Bool(), toks, sp, true)
		b := append([]byte(nil), s.W.Bytes()...)
		desc := "header-hostile " + fmt.Sprint(s.Desc)
		for k := r.Range(1, 2); k > 0 && len(b) > 0; k-- {
			pos := r.Intn(len(b))
			bit := uint(r.Intn(8))
			b[pos] ^= 1 << bit
			desc += fmt.Sprintf(" flip@%d.%d", pos, bit)
		}
		if r.Chance(2, 3) && len(b) > 0 {
			k := r.Intn(len(b) + 1)
			b = b[:k]
			desc += fmt.Sprintf(" cut@%d", k)
		} else if r.Bool() {
			b = append(b, make([]byte, 40)...)
		}
		return c03Input{B: b, Kind: "header-hostile", Desc: desc}
	default:
		vs := RandomValidStream(r, 20000)
		if len(vs.S) == 0 {
			return c03Input{B: nil, Kind: "truncated", Desc: "empty", IsPrefix: true}
		}
		k := r.Intn(len(vs.S))
		if r.Chance(1, 3) {
			// near the ends and near flush points
			k = r.Pick(0, 1, 2, 3, len(vs.S)-1, len(vs.S)-2, len(vs.S)-4, len(vs.S)-5)
			if k < 0 {
				k = 0
			}
			if k >= len(vs.S) {
				k = len(vs.S) - 1
			}
		}
		return c03Input{B: vs.S[:k], Kind: "truncated", Desc: fmt.Sprintf("first %d of %d bytes of %s", k, len(vs.S), vs.Desc), PrefixOf: vs.Plain, IsPrefix: true}
	}
}

type readRun struct {
	out    []byte
	err    error
	bad    string
	sticky string
	panicV interface{}
	stack  string
}

// drain reads rd to the first error, then three more times.
func drain(rd io.Reader, sizes func() int, limit int) (rr readRun) {
	rr.panicV, rr.stack = mon.Safe(func() {
		rr.out, rr.err, rr.bad = readAllSizes(rd, sizes, limit)
		if rr.bad != "" || rr.err == nil {
			return
		}
		for k, n := range []int{1, 64, 5000} {
			p := make([]byte, n)
			m, e := rd.Read(p)
			if m != 0 || !errIdentical(e, rr.err) {
				rr.sticky = fmt.Sprintf("Read #%d after the error %v returned (%d, %v)", k+1, rr.err, m, e)
				return
			}
		}
	})
	return
}

func mkSource(r *gen.Rand, b []byte, style string) io.Reader {
	switch style {
	case "chunks":
		return &chunkReader{data: append([]byte(nil), b...), next: func() int { return r.Range(1, 50) }}
	case "onebyte":
		return &chunkReader{data: append([]byte(nil), b...), next: func() int { return 1 }}
	case "dataeof":
		return &chunkReader{data: append([]byte(nil), b...), next: func() int { return 1 << 20 }, dataWithEOF: true}
	}
	return bufioOf(bytes.NewReader(b), 4096)
}

// judge applies the C03 oracle to one reading of in.B. place names how the
// Reader was obtained (fresh / after-…).
func (c03) judge(c *mon.Ctx, in c03Input, ref *refinf.Result, sOut []byte, sErr error, rr readRun, place, srcStyle string, reread func(pad []byte) readRun, desc map[string]interface{}) {
	v := func(sig, what string) {
		d := map[string]interface{}{}
		for k, x := range desc {
			d[k] = x
		}
		d["placement"] = place
		d["source"] = srcStyle
		d["fastgo"] = fmt.Sprintf("%d bytes, err=%v", len(rr.out), rr.err)
		d["reference"] = ref.String()
		d["stdlib"] = fmt.Sprintf("%d bytes, err=%v", len(sOut), sErr)
		c.Violate(sig+"|"+place, what, d)
	}
	if rr.panicV != nil {
		desc["stack"] = rr.stack
		v("panic|"+mon.PanicSite(rr.stack), fmt.Sprintf("Reader panicked: %v", rr.panicV))
		return
	}
	if rr.bad != "" {
		v("read-contract", rr.bad)
		return
	}
	k := impl.ErrClass(rr.err)
	// 3. nothing fabricated: bytes handed out are a prefix of what the reference produced
	if !isPrefix(rr.out, ref.Out) {
		fd := firstDiff(rr.out, ref.Out)
		v("fabricated-bytes", fmt.Sprintf("byte %d handed out by fastgo is not what the reference inflater produces there (fastgo %d bytes, reference %d bytes, reference status %s)", fd, len(rr.out), len(ref.Out), ref.Status))
		return
	}
	// 2. io.EOF only for a complete stream, with all of its bytes
	if k == "EOF" {
		if ref.Status != refinf.Complete {
			v("eof-on-malformed", fmt.Sprintf("fastgo ended in io.EOF after %d bytes; the permissive reference says %s", len(rr.out), ref))
			return
		}
		if !bytes.Equal(rr.out, ref.Out) {
			v("eof-with-missing-bytes", fmt.Sprintf("fastgo ended in io.EOF after %d bytes; the stream holds %d", len(rr.out), len(ref.Out)))
			return
		}
	}
	// 4. error kinds
	switch k {
	case "EOF", "UnexpectedEOF", "Corrupt":
	default:
		v("error-kind|"+k, fmt.Sprintf("final error %v is none of io.EOF, io.ErrUnexpectedEOF, flate.CorruptInputError", rr.err))
		return
	}
	if in.IsPrefix && k != "UnexpectedEOF" {
		v("truncated-not-unexpected-eof|"+k, fmt.Sprintf("input is a proper prefix of a valid stream; fastgo ended in %v after %d bytes", rr.err, len(rr.out)))
		return
	}
	if !in.IsPrefix && k == "UnexpectedEOF" && ref.Status != refinf.NeedMore {
		// allowed only if the input ran out before the decoder reached the
		// defect (or the end): with more input it must decide.
		pad := make([]byte, 512)
		r2 := reread(pad)
		k2 := impl.ErrClass(r2.err)
		if r2.panicV == nil && k2 == "UnexpectedEOF" {
			v("unexpected-eof-on-decidable-input", fmt.Sprintf("reference says %s, fastgo says unexpected EOF even with 512 more bytes of input", ref))
			return
		}
		c.Count("unexpected-eof-resolved-by-padding", 1)
	}
	// 5. sticky
	if rr.sticky != "" {
		v("error-not-sticky", rr.sticky)
		return
	}
	c.Count("outcome:"+k, 1)
}

func (p c03) Run(c *mon.Ctx, i int) {
	r := c.R
	in := c03Gen(r, i)
	ref := refinf.Inflate(in.B, refinf.Options{MaxOut: 64 << 20})
	if ref.Reason == refinf.ROutputLimit {
		c.Count("dropped:output-limit", 1)
		return
	}
	sOut, sErr := stdlibInflate(in.B, nil)
	// 6. sanity of the bounds themselves
	if sErr == nil && (ref.Status != refinf.Complete || !bytes.Equal(ref.Out, sOut)) {
		c.Count("dropped:reference-stricter-than-stdlib", 1)
		c.Extra("inconclusive", "compress/flate accepts but the permissive reference says "+ref.String())
		return
	}
	if !isPrefix(sOut, ref.Out) {
		c.Count("dropped:stdlib-output-not-reference-prefix", 1)
		c.Extra("inconclusive", "compress/flate hands out bytes the reference does not")
		return
	}
	desc := map[string]interface{}{"kind": in.Kind, "input": in.Desc, "input_len": len(in.B), "input_sha": mon.Sha(in.B)}
	if len(in.B) <= 1500 {
		desc["input_hex"] = mon.Hex(in.B, 1500)
	}
	srcStyle := []string{"bufio", "bufio", "chunks", "onebyte", "dataeof"}[r.Intn(5)]
	style := gen.ReadStyles[r.Intn(len(gen.ReadStyles))]
	limit := len(ref.Out) + 1<<20

	// fresh Reader
	fresh := func(pad []byte) readRun {
		b := append(append([]byte(nil), in.B...), pad...)
		rd := c.API.NewFlateReader(mkSource(r, b, srcStyle))
		return drain(rd, gen.ReadSizes(r, style), limit)
	}
	rr := fresh(nil)
	c.Eval(1)
	p.judge(c, in, ref, sOut, sErr, rr, "fresh", srcStyle, fresh, desc)
	if c.Violated() {
		return
	}

	// reused Reader: previous stream completed / abandoned / failed
	prevKind := []string{"completed", "abandoned", "failed"}[r.Intn(3)]
	marker := bytes.Repeat([]byte{0xC3, 0x3C, 0x5A, 0xA5}, 5000)
	var prev []byte
	switch prevKind {
	case "failed":
		prev = encodeStd(marker, 6, nil)
		prev = prev[:len(prev)/2]
	default:
		prev = encodeStd(append(marker, gen.Make(r, "text", 30000).B...), r.Pick(0, 1, 6), nil)
	}
	reused := func(pad []byte) readRun {
		var rr readRun
		rd := c.API.NewFlateReader(bufioOf(bytes.NewReader(prev), 4096))
		pv, st := mon.Safe(func() {
			switch prevKind {
			case "completed", "failed":
				io.Copy(io.Discard, rd)
			case "abandoned":
				rd.Read(make([]byte, r.Range(1, 300)))
			}
		})
		if pv != nil {
			return readRun{panicV: pv, stack: st}
		}
		b := append(append([]byte(nil), in.B...), pad...)
		pv, st = mon.Safe(func() { rd.Reset(mkSource(r, b, srcStyle), nil) })
		if pv != nil {
			return readRun{panicV: pv, stack: st}
		}
		rr = drain(rd, gen.ReadSizes(r, style), limit)
		return rr
	}
	rr2 := reused(nil)
	c.Eval(1)
	p.judge(c, in, ref, sOut, sErr, rr2, "after-"+prevKind, srcStyle, reused, desc)
	if c.Violated() {
		return
	}
	c.Count("kind:"+in.Kind, 1)
	c.Count("reference:"+ref.Status.String(), 1)
	if ref.Status == refinf.Corrupt {
		c.Count("reference-reason:"+ref.Reason, 1)
	}
	if sErr != nil {
		c.Nontrivial(in.B, prevKind, srcStyle)
	}
	if i%997 == 0 {
		c.Sample(desc)
	}
}
