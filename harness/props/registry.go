// Package props holds one monitor per property of /verif/properties.jsonl.
package props

import (
	"sort"

	"fgverif/mon"
)

var all = map[string]mon.Prop{}

func register(p mon.Prop) { all[p.ID()] = p }

func Get(id string) mon.Prop { return all[id] }

func IDs() []string {
	var s []string
	for k := range all {
		s = append(s, k)
	}
	sort.Strings(s)
	return s
}
