package props

import (
	"bytes"
	"errors"
	"fmt"
	"io"

	"fgverif/gen"
	"fgverif/impl"
	"fgverif/mon"
)

// C12 — Writer.Reset makes a used Writer indistinguishable from a new one.
type c12 struct{}

func init() { register(c12{}) }

func (c12) ID() string            { return "C12" }
func (c12) EvidenceLevel() string { return "exploration" }
func (c12) Rule() string {
	return "case = (flate/gzip/zlib setting, earlier history h1 reaching a named writer state: fresh, buffered below the roll-over, pending tokens (> 2W+258 bytes written and nothing flushed), just flushed, closed, failed in Write / Flush / Close through a failing destination, Huffman-only partial block, two Resets in a row; later history h2 in {Close only, small write, write beyond the roll-over, with Flush}). After h1 and Reset(dst) the Writer's emissions and per-call error-ness for h2 must equal a fresh Writer's, and the reused Writer's stream must pass the C01 decode oracle; red zones intact. Non-trivial: h1 left state behind (not 'fresh'); distinct by (setting, state, h1/h2 data digests)."
}
func (c12) NumCases(tier string) int {
	if tier == "thorough" {
		return 50000
	}
	return 3000
}
func (c12) Plan(tier string) []mon.RunSpec {
	return []mon.RunSpec{{Flavour: "plain"}, {Flavour: "checkptr", Every: 3}}
}

var errDst = errors.New("c12: destination failed")

var c12States = []string{"fresh", "buffered", "pending-tokens", "flushed", "closed", "failed-write", "failed-flush", "failed-close", "partial-block", "double-reset", "pending-tokens", "failed-write-midblock", "failed-first-op"}

// applyH runs ops on w, returning per-op error-ness.
func applyOps(w impl.Writer, data []byte, ops []gen.Op) (errs []bool, pv interface{}, st string) {
	pos := 0
	pv, st = mon.Safe(func() {
		for _, o := range ops {
			var err error
			switch o.Kind {
			case "write":
				_, err = w.Write(data[pos : pos+o.N])
				pos += o.N
			case "flush":
				err = w.Flush()
			case "close":
				err = w.Close()
			}
			errs = append(errs, err != nil)
		}
	})
	return
}

func (c12) Run(c *mon.Ctx, i int) {
	r := c.R
	s := Setting{Wrapper: []string{"flate", "flate", "flate", "gzip", "zlib"}[i%5]}
	if r.Chance(4, 5) {
		s.Level = accelLevels[r.Intn(4)]
	} else {
		s.Level = allLevels[r.Intn(len(allLevels))]
	}
	if s.Wrapper == "flate" {
		s.Win4K = r.Chance(1, 3)
	}
	if s.Wrapper == "zlib" && r.Chance(1, 6) {
		s.Dict = []byte("preset dictionary for c12")
	}
	state := c12States[r.Intn(len(c12States))]
	W := 32768
	if s.Win4K {
		W = 4096
	}
	ro := 2*W + 258
	// h1
	var d1 gen.Data
	var ops1 []gen.Op
	sink1 := &Sink{}
	switch state {
	case "fresh":
		d1 = gen.Data{Desc: "none"}
	case "buffered":
		d1 = gen.Make(r, "text", r.Range(1, ro-1))
		ops1 = []gen.Op{{Kind: "write", N: len(d1.B)}}
	case "pending-tokens":
		d1 = gen.Make(r, []string{"text", "uniform", "alpha4", "runs"}[r.Intn(4)], ro+r.Range(1, 2*ro))
		ops1 = []gen.Op{{Kind: "write", N: len(d1.B)}}
	case "flushed":
		d1 = gen.RandomData(r, 100000)
		ops1 = []gen.Op{{Kind: "write", N: len(d1.B)}, {Kind: "flush"}}
	case "closed":
		d1 = gen.RandomData(r, 100000)
		ops1 = []gen.Op{{Kind: "write", N: len(d1.B)}, {Kind: "close"}}
	case "failed-write", "failed-write-midblock":
		d1 = gen.Make(r, "uniform", 4*ro+r.Range(0, 70000))
		ops1 = []gen.Op{{Kind: "write", N: len(d1.B)}}
		sink1.FailAt, sink1.FailErr = r.Range(1, 3), errDst
		if state == "failed-write-midblock" {
			sink1.FailAt = r.Range(2, 9)
			sink1.Partial = r.Bool()
		}
	case "failed-flush":
		d1 = gen.Make(r, "text", r.Range(1, ro-1))
		ops1 = []gen.Op{{Kind: "write", N: len(d1.B)}, {Kind: "flush"}}
		sink1.FailAt, sink1.FailErr = r.Range(1, 2), errDst
	case "failed-close":
		d1 = gen.Make(r, "text", r.Range(0, ro-1))
		ops1 = []gen.Op{{Kind: "write", N: len(d1.B)}, {Kind: "close"}}
		sink1.FailAt, sink1.FailErr = r.Range(1, 2), errDst
	case "failed-first-op":
		// the very first operation of the stream fails, at its 1st..3rd destination
		// call: Flush or Close with nothing written, or a tiny Write then Flush
		d1 = gen.Make(r, "text", r.Range(1, 50))
		switch r.Intn(3) {
		case 0:
			d1 = gen.Data{Desc: "none"}
			ops1 = []gen.Op{{Kind: "flush"}}
		case 1:
			d1 = gen.Data{Desc: "none"}
			ops1 = []gen.Op{{Kind: "close"}}
		default:
			ops1 = []gen.Op{{Kind: "write", N: len(d1.B)}, {Kind: "flush"}}
		}
		sink1.FailAt, sink1.FailErr = r.Range(1, 3), errDst
	case "partial-block":
		d1 = gen.Make(r, "text", r.Range(1, 65535))
		ops1 = []gen.Op{{Kind: "write", N: len(d1.B)}}
	case "double-reset":
		d1 = gen.Make(r, "alpha4", ro+r.Range(1, ro))
		ops1 = []gen.Op{{Kind: "write", N: len(d1.B)}}
	}
	// h2
	var d2 gen.Data
	var ops2 []gen.Op
	h2kind := []string{"close-only", "small", "beyond-rollover", "with-flush"}[r.Intn(4)]
	switch h2kind {
	case "close-only":
		d2 = gen.Data{Desc: "none"}
		ops2 = []gen.Op{{Kind: "close"}}
	case "small":
		d2 = gen.Make(r, gen.Families[r.Intn(8)], r.Range(1, 300))
		ops2 = []gen.Op{{Kind: "write", N: len(d2.B)}, {Kind: "close"}}
	case "beyond-rollover":
		d2 = gen.Make(r, gen.Families[r.Intn(len(gen.Families))], ro+r.Range(1, ro))
		ops2 = gen.Schedule(r, len(d2.B), nil, gen.PartitionStyles[r.Intn(4)])
	default:
		d2 = gen.RandomData(r, 150000)
		ops2 = gen.Schedule(r, len(d2.B), gen.FlushPositions(r, len(d2.B)), gen.PartitionStyles[r.Intn(4)])
	}
	desc := map[string]interface{}{"setting": s.String(), "state_before_reset": state, "h1_data": d1.Desc, "h1_ops": gen.OpsString(ops1), "h2": h2kind, "h2_data": d2.Desc, "h2_ops": gen.OpsString(ops2),
		"h1_sha": mon.Sha(d1.B), "h2_sha": mon.Sha(d2.B)}
	where := fmt.Sprintf("%s|state=%s", s.Wrapper, state)
	if s.Accelerated() {
		where += "|accelerated"
		if s.Level == -2 {
			where += "-huffonly"
		}
	}

	// fresh writer running h2
	fsink := &Sink{}
	fw, err := NewWriter(c.API, s, fsink)
	if err != nil {
		return
	}
	ferrs, pv, st := applyOps(fw, d2.B, ops2)
	if pv != nil {
		desc["stack"] = st
		c.Violate("panic|"+mon.PanicSite(st)+"|fresh", fmt.Sprintf("fresh writer panicked: %v", pv), desc)
		return
	}
	// reused writer
	w, err := NewWriter(c.API, s, sink1)
	if err != nil {
		return
	}
	g, _ := w.(impl.Guarded)
	if g != nil {
		g.InstallGuards()
		defer g.DropGuards()
	}
	if gz, ok := w.(impl.GzipWriter); ok && r.Bool() {
		// header fields of the earlier stream: a fresh Writer has none
		gz.SetHeader(randHeader(r))
		desc["h1_header_fields_set"] = true
	}
	_, pv, st = applyOps(w, d1.B, ops1)
	if pv != nil {
		desc["stack"] = st
		c.Violate("panic|"+mon.PanicSite(st)+"|h1", fmt.Sprintf("writer panicked during h1: %v", pv), desc)
		return
	}
	if g != nil {
		g.InstallGuards() // gzip/zlib create the inner writer lazily
	}
	rsink := &Sink{}
	pv, st = mon.Safe(func() {
		// a third of the cases hand the destinations over by value (a struct type
		// that is not comparable), as C16 does
		var dst0, dst1 io.Writer = &Sink{}, rsink
		if i%3 == 2 {
			dst0, dst1 = valSink{s: &Sink{}}, valSink{s: rsink}
		}
		if state == "double-reset" {
			w.Reset(dst0)
		}
		w.Reset(dst1)
	})
	if pv != nil {
		desc["stack"] = st
		c.Violate("panic|"+mon.PanicSite(st)+"|reset", fmt.Sprintf("Reset panicked: %v", pv), desc)
		return
	}
	rerrs, pv, st := applyOps(w, d2.B, ops2)
	c.Eval(2)
	if pv != nil {
		desc["stack"] = st
		c.Violate("panic|"+mon.PanicSite(st)+"|after-reset|"+where, fmt.Sprintf("writer panicked after Reset: %v", pv), desc)
		return
	}
	if g != nil {
		if e := g.CheckGuards(); e != nil {
			c.Violate("redzone|"+where, e.Error(), desc)
			return
		}
	}
	for k := range ferrs {
		if k < len(rerrs) && ferrs[k] != rerrs[k] {
			c.Violate("error-differs|"+where, fmt.Sprintf("op %d of h2 (%s): fresh writer error=%v, reused writer error=%v", k, ops2[k].Kind, ferrs[k], rerrs[k]), desc)
			return
		}
	}
	fout, rout := fsink.Buf.Bytes(), rsink.Buf.Bytes()
	if !bytes.Equal(fout, rout) {
		desc["fresh_len"], desc["reused_len"] = len(fout), len(rout)
		extra := ""
		if s.Wrapper == "flate" && s.Dict == nil {
			if got, e := stdlibInflate(rout, nil); e == nil && len(d1.B) > 64 && bytes.Contains(got, d1.B[:64]) {
				extra = " — the reused writer's stream contains data of the earlier stream"
			}
		}
		c.Violate("output-differs|"+where, fmt.Sprintf("%s: after state %q and Reset the writer emits %d bytes for h2 [%s]; a fresh writer emits %d (first difference at %d)%s", s, state, len(rout), gen.OpsString(ops2), len(fout), firstDiff(fout, rout), extra), desc)
		return
	}
	// decode oracle on the reused writer's stream
	raw, ok := rout, true
	switch s.Wrapper {
	case "gzip":
		raw, ok = gzipDeflatePart(rout)
	case "zlib":
		raw, ok = zlibDeflatePart(rout)
	}
	if ok {
		if sig, what, res := DecodeChecks(c.API, raw, d2.B, s.Dict); sig != "" {
			if sig == "ref-wrong-data" && isDelegatedDictReplay(res.Out, d2.B, s.Dict) {
				c.Count("delegated-dict-writer-replay-seen", 1)
			} else {
				c.Violate("reused-stream-invalid|"+sig+"|"+where, what, desc)
				return
			}
		}
	}
	c.Count("state:"+state+" -> "+h2kind, 1)
	c.Count("wrapper:"+s.Wrapper, 1)
	if state != "fresh" {
		c.Nontrivial(s.String(), state, d1.B, d2.B, gen.OpsString(ops2))
	}
	if i%173 == 0 {
		c.Sample(desc)
	}
}
