package props

import (
	"bufio"
	"bytes"
	sflate "compress/flate"
	"fmt"
	"io"
	"strings"

	"fgverif/gen"
	"fgverif/impl"
	"fgverif/mon"
	"fgverif/synth"
)

// C05 — after io.EOF the source is positioned exactly at the end of the
// DEFLATE stream (and, for gzip/zlib, just after the trailer).
type c05 struct{}

func init() { register(c05{}) }

func (c05) ID() string            { return "C05" }
func (c05) EvidenceLevel() string { return "exploration" }
func (c05) Rule() string {
	return "case 0 = end-of-stream sweep: final fixed blocks and final dynamic blocks with an end-of-block code of 1..15 bits, ending at each bit position, followed by every value of the next eight bits, and final stored blocks of 0..12 bytes, all on *bufio.Reader sources of 16/64/4096 bytes (about 36000 streams, each first accepted by compress/flate). Other cases: case = (container kind flate/gzip/zlib, valid stream S incl. synthesised streams whose last block is stored/fixed/dynamic and ends at each bit position, suffix T of 0..5000 bytes (random or another valid stream)) x every source kind {*bufio.Reader of 16,17,64,4095,4096,4097,65536; *bytes.Reader; *bytes.Buffer; *strings.Reader; a custom io.ByteReader} x constructor {NewReader, Reset}. After the Reader returned io.EOF (gzip: Multistream(false)) the decoded bytes must be the payload and io.ReadAll(source) must be exactly T. Non-trivial: T non-empty; distinct by (S digest, T digest, source kind, constructor)."
}
func (c05) NumCases(tier string) int {
	if tier == "thorough" {
		return 10000
	}
	return 500
}

// custom ByteReader that is neither bufio nor a bytes/strings reader
type plainByteReader struct {
	b []byte
}

func (p *plainByteReader) Read(q []byte) (int, error) {
	if len(p.b) == 0 {
		return 0, io.EOF
	}
	n := copy(q, p.b)
	p.b = p.b[n:]
	return n, nil
}
func (p *plainByteReader) ReadByte() (byte, error) {
	if len(p.b) == 0 {
		return 0, io.EOF
	}
	c := p.b[0]
	p.b = p.b[1:]
	return c, nil
}

var c05Sources = []string{"bufio16", "bufio17", "bufio64", "bufio4095", "bufio4096", "bufio4097", "bufio65536", "bufio65537", "bufio131072", "bufio1048576", "bytes.Reader", "bytes.Buffer", "strings.Reader", "custom-ByteReader"}

func c05Source(kind string, data []byte) io.Reader {
	d := append([]byte(nil), data...)
	switch kind {
	case "bytes.Reader":
		return bytes.NewReader(d)
	case "bytes.Buffer":
		return bytes.NewBuffer(d)
	case "strings.Reader":
		return strings.NewReader(string(d))
	case "custom-ByteReader":
		return &plainByteReader{b: d}
	}
	var n int
	fmt.Sscanf(kind, "bufio%d", &n)
	return bufio.NewReaderSize(bytes.NewReader(d), n)
}

// endSweep enumerates the last few bits of a stream against the first bits
// that follow it: final fixed blocks and final dynamic blocks whose
// end-of-block code is 1..15 bits long, ending at each of the eight bit
// positions, followed by every value of the next eight bits (padding bits and
// the first byte behind the stream); final stored blocks of 0..12 bytes behind
// 0..3 bits of earlier data. Every stream is first decoded with compress/flate
// (which must accept it and is the expected output), then by fastgo on a
// *bufio.Reader, whose position afterwards must be the first byte behind the
// stream.
func (c05) endSweep(c *mon.Ctx) {
	r := c.R
	var rd impl.FlateReader
	n := 0
	try := func(shape string, all []byte, clen int) bool {
		container, T := all[:clen], all[clen:]
		want, err := io.ReadAll(sflate.NewReader(bytes.NewReader(container)))
		if err != nil {
			c.Count("end-sweep-streams-not-accepted-by-compress/flate", 1)
			return true
		}
		n++
		bsz := []int{16, 64, 4096}[n%3]
		src := bufio.NewReaderSize(bytes.NewReader(append([]byte(nil), all...)), bsz)
		var got []byte
		var ferr error
		pv, st := mon.Safe(func() {
			if rd == nil || n%2 == 0 {
				rd = c.API.NewFlateReader(src)
			} else {
				rd.Reset(src, nil)
			}
			got, ferr = io.ReadAll(rd)
		})
		c.Eval(1)
		d := map[string]interface{}{"shape": shape, "stream_and_suffix": fmt.Sprintf("%x", all), "stream_len": clen, "source": fmt.Sprintf("bufio%d", bsz)}
		where := fmt.Sprintf("wrapper=flate|ctor=end-sweep|src=bufio%d", bsz)
		if pv != nil {
			d["stack"] = st
			c.Violate("panic|"+mon.PanicSite(st)+"|"+where, fmt.Sprintf("panicked: %v", pv), d)
			return false
		}
		if ferr != nil || !bytes.Equal(got, want) {
			c.Violate("valid-container-misread|"+errKind(ferr)+"|"+where, fmt.Sprintf("%s: %d bytes then %v; compress/flate reads %d bytes", shape, len(got), ferr, len(want)), d)
			return false
		}
		rest, _ := io.ReadAll(src)
		if !bytes.Equal(rest, T) {
			d["left_in_source"] = len(rest)
			d["expected_left"] = len(T)
			sig := "rest-differs|"
			if len(rest) < len(T) {
				sig = "over-read|"
			} else if len(rest) > len(T) {
				sig = "under-read|"
			}
			c.Violate(sig+where, fmt.Sprintf("%s: %d bytes are left in the source, %d follow the stream", shape, len(rest), len(T)), d)
			return false
		}
		c.Count("end-sweep-positions-exact", 1)
		return true
	}
	finish := func(s *synth.Stream, v int) ([]byte, int) {
		clen := int((s.W.BitLen() + 7) / 8)
		s.W.Bits(uint32(v), 8)
		s.W.Align()
		tail := r.Bytes([]int{1, 2, 40}[v%3])
		return append(append([]byte(nil), s.W.Bytes()...), tail...), clen
	}
	// final fixed block: literal counts shift the alignment (8- and 9-bit codes)
	for k := 0; k < 16; k++ {
		for v := 0; v < 256; v++ {
			s := synth.NewStream(r)
			var toks []synth.Token
			for j := 0; j < k; j++ {
				toks = append(toks, synth.Lit(byte(100+100*(j%2))))
			}
			s.Fixed(true, toks, true)
			all, clen := finish(s, v)
			if !try(fmt.Sprintf("fixed-final/%d-literals/next8bits=%02x", k, v), all, clen) {
				return
			}
		}
	}
	// final dynamic block with an end-of-block code of L bits
	for L := 1; L <= 15; L++ {
		lit := make([]int, 257)
		for j := 1; j < L; j++ {
			lit['a'+j-1] = j
		}
		lit['a'+L-1] = L
		lit[256] = L
		for k := 0; k < 8; k++ {
			for v := 0; v < 256; v++ {
				s := synth.NewStream(r)
				var toks []synth.Token
				for j := 0; j < k; j++ {
					toks = append(toks, synth.Lit('a')) // a 1-bit code (L bits when L == 1)
				}
				sp := synth.NewDynSpec()
				sp.LitLens, sp.DistLens = lit, []int{1}
				s.Dynamic(true, toks, sp, true)
				all, clen := finish(s, v)
				if !try(fmt.Sprintf("dynamic-final/eob-%d-bits/%d-literals/next8bits=%02x", L, k, v), all, clen) {
					return
				}
			}
		}
	}
	// final stored block of 0..12 bytes behind 0..3 literals of a fixed block
	for k := 0; k < 4; k++ {
		for ln := 0; ln <= 12; ln++ {
			for _, tl := range []int{1, 2, 3, 5, 8, 40} {
				s := synth.NewStream(r)
				if k > 0 {
					var toks []synth.Token
					for j := 0; j < k; j++ {
						toks = append(toks, synth.Lit(byte(200+j)))
					}
					s.Fixed(false, toks, true)
				}
				s.Stored(true, r.Bytes(ln))
				clen := len(s.W.Bytes())
				all := append(append([]byte(nil), s.W.Bytes()...), r.Bytes(tl)...)
				if !try(fmt.Sprintf("stored-final/%d-bytes/behind-%d-literals/suffix-%d", ln, k, tl), all, clen) {
					return
				}
			}
		}
	}
	c.Nontrivial("end-sweep")
}

func (p c05) Run(c *mon.Ctx, i int) {
	if i == 0 {
		p.endSweep(c)
		return
	}
	r := c.R
	wrapper := []string{"flate", "flate", "gzip", "zlib"}[i%4]
	// payload and container
	var container, payload []byte
	var desc string
	switch wrapper {
	case "flate":
		var vs *ValidStream
		if i%16 == 9 {
			st, plain, d := synth.WindowEdge(r, r.Intn(6), r.Range(1, 4), r.Pick(0, 0, 1), true, false)
			vs = &ValidStream{S: st, Plain: plain, Desc: "synth " + d}
		} else if i%8 < 4 {
			// synthesised: final block of each type, final EOB ending at varying bit positions
			s := synth.NewStream(r)
			if r.Bool() {
				s.Fixed(false, synth.RandomTokens(r, 0, r.Range(0, 60), "mixed"), true)
			}
			switch r.Intn(3) {
			case 0:
				s.Stored(true, r.Bytes(r.Range(0, 300)))
			case 1:
				s.Fixed(true, synth.RandomTokens(r, len(s.Plain), r.Range(0, 300), "mixed"), true)
			default:
				toks := synth.RandomTokens(r, len(s.Plain), r.Range(0, 300), "mixed")
				lit, dist := synth.LengthsFor(r, toks, synth.CodeOpts{})
				sp := synth.NewDynSpec()
				sp.LitLens, sp.DistLens = lit, dist
				s.Dynamic(true, toks, sp, true)
			}
			vs = &ValidStream{S: s.W.Bytes(), Plain: s.Plain, Desc: "synth " + fmt.Sprint(s.Desc)}
			c.Count(fmt.Sprintf("final-block-ends-at-bit%d", s.W.BitLen()&7), 1)
		} else {
			vs = RandomValidStream(r, 100000)
		}
		container, payload, desc = vs.S, vs.Plain, vs.Desc
	case "gzip":
		d := gen.RandomData(r, 100000)
		payload = d.B
		lvl := allLevels[r.Intn(len(allLevels))]
		if r.Bool() {
			container = encodeStdGzip(payload, lvl)
			desc = fmt.Sprintf("stdlib gzip L%d %s", lvl, d.Desc)
		} else {
			var b bytes.Buffer
			w, _ := c.API.NewGzipWriterLevel(&b, lvl)
			w.Write(payload)
			w.Close()
			container = b.Bytes()
			desc = fmt.Sprintf("%s gzip L%d %s", c.API.Name, lvl, d.Desc)
		}
	case "zlib":
		d := gen.RandomData(r, 100000)
		payload = d.B
		lvl := allLevels[r.Intn(len(allLevels))]
		if r.Bool() {
			container = encodeStdZlib(payload, lvl, nil)
			desc = fmt.Sprintf("stdlib zlib L%d %s", lvl, d.Desc)
		} else {
			var b bytes.Buffer
			w, _ := c.API.NewZlibWriterLevel(&b, lvl)
			w.Write(payload)
			w.Close()
			container = b.Bytes()
			desc = fmt.Sprintf("%s zlib L%d %s", c.API.Name, lvl, d.Desc)
		}
	}
	// suffix
	var T []byte
	switch r.Intn(4) {
	case 0:
		T = r.Bytes(r.Pick(0, 1, 2, 7, 8, 9, 64))
	case 1:
		T = r.Bytes(5000)
	case 2:
		T = append([]byte(nil), container...) // another valid stream
		if len(T) > 20000 {
			T = T[:20000]
		}
	default:
		T = r.Bytes(r.Range(1, 300))
	}
	if i%5 == 4 {
		// a long tail: buffers larger than 64 KiB really hold more than that
		T = r.Bytes(r.Range(70000, 300000))
	}
	all := append(append([]byte(nil), container...), T...)
	base := map[string]interface{}{"wrapper": wrapper, "container": desc, "container_len": len(container), "container_sha": mon.Sha(container), "suffix_len": len(T), "payload_len": len(payload)}
	for _, kind := range c05Sources {
		for _, ctor := range []string{"NewReader", "Reset", "NewReader+reused-elsewhere", "Reset+reused-elsewhere"} {
			// variants: after io.EOF the Reader is Reset onto an unrelated
			// source and used there before the caller looks at the first source
			elsewhere := strings.HasSuffix(ctor, "+reused-elsewhere")
			if elsewhere && i%3 != 0 {
				continue
			}
			src := c05Source(kind, all)
			var got []byte
			var err error
			pv, st := mon.Safe(func() {
				sizes := gen.ReadSizes(r, gen.ReadStyles[2+r.Intn(5)])
				switch wrapper {
				case "flate":
					var rd impl.FlateReader
					if !strings.HasPrefix(ctor, "Reset") {
						rd = c.API.NewFlateReader(src)
					} else {
						rd = c.API.NewFlateReader(bytes.NewReader(nil))
						rd.Reset(src, nil)
					}
					got, err, _ = readAllSizes(rd, sizes, len(payload)+1<<20)
					if elsewhere && err == io.EOF {
						other := encodeStd([]byte("an unrelated stream read through the same Reader afterwards"), 6, nil)
						rd.Reset(bytes.NewReader(other), nil)
						io.Copy(io.Discard, rd)
					}
				case "gzip":
					var rd impl.GzipReader
					if !strings.HasPrefix(ctor, "Reset") {
						rd, err = c.API.NewGzipReader(src)
					} else {
						rd, err = c.API.NewGzipReader(bytes.NewReader(encodeStdGzip([]byte("x"), 1)))
						if err == nil {
							err = rd.Reset(src)
						}
					}
					if err != nil {
						return
					}
					rd.Multistream(false)
					got, err, _ = readAllSizes(rd, sizes, len(payload)+1<<20)
					if elsewhere && err == io.EOF {
						if rd.Reset(bytes.NewReader(encodeStdGzip([]byte("unrelated"), 6))) == nil {
							io.Copy(io.Discard, rd)
						}
					}
				case "zlib":
					var rd impl.ZlibReader
					if !strings.HasPrefix(ctor, "Reset") {
						rd, err = c.API.NewZlibReader(src)
					} else {
						rd, err = c.API.NewZlibReader(bytes.NewReader(encodeStdZlib([]byte("x"), 1, nil)))
						if err == nil {
							err = rd.Reset(src, nil)
						}
					}
					if err != nil {
						return
					}
					got, err, _ = readAllSizes(rd, sizes, len(payload)+1<<20)
					if elsewhere && err == io.EOF {
						if rd.Reset(bytes.NewReader(encodeStdZlib([]byte("unrelated"), 6, nil)), nil) == nil {
							io.Copy(io.Discard, rd)
						}
					}
				}
			})
			c.Eval(1)
			where := fmt.Sprintf("wrapper=%s|ctor=%s|src=%s", wrapper, ctor, kind)
			d := map[string]interface{}{"source": kind, "constructor": ctor}
			for k, v := range base {
				d[k] = v
			}
			if pv != nil {
				d["stack"] = st
				c.Violate("panic|"+mon.PanicSite(st)+"|"+where, fmt.Sprintf("panicked: %v", pv), d)
				return
			}
			if err != io.EOF || !bytes.Equal(got, payload) {
				c.Violate("valid-container-misread|"+errKind(err)+"|"+where, fmt.Sprintf("%s on %s via %s: %d bytes then %v; expected the %d-byte payload then io.EOF", wrapper, kind, ctor, len(got), err, len(payload)), d)
				continue
			}
			rest, _ := io.ReadAll(src)
			switch {
			case bytes.Equal(rest, T):
				c.Count("positioned-exactly:"+kind+"/"+ctor, 1)
				if len(T) > 0 {
					c.Nontrivial(container, T, kind, ctor)
				}
			case len(rest) < len(T) && bytes.Equal(rest, T[len(T)-len(rest):]):
				d["bytes_over_read"] = len(T) - len(rest)
				d["where"] = where
				sig := "over-read|" + where
				if !strings.HasPrefix(kind, "bufio") {
					// every io.ByteReader that is not a *bufio.Reader is wrapped in a
					// 4096-byte bufio by the three packages: one circumstance
					sig = "over-read|wrapper=" + wrapper + "|src=non-bufio-ByteReader"
				}
				c.Violate(sig, fmt.Sprintf("%s on %s via %s consumed %d bytes beyond the end of the stream (%d of the %d bytes that follow are left)", wrapper, kind, ctor, len(T)-len(rest), len(rest), len(T)), d)
			case len(rest) > len(T) && bytes.Equal(rest[len(rest)-len(T):], T):
				d["bytes_under_read"] = len(rest) - len(T)
				c.Violate("under-read|"+where, fmt.Sprintf("%s on %s via %s left %d bytes of the stream itself unread", wrapper, kind, ctor, len(rest)-len(T)), d)
			default:
				c.Violate("rest-differs|"+where, fmt.Sprintf("%s on %s via %s: the %d bytes left in the source are not a suffix of what followed the stream", wrapper, kind, ctor, len(rest)), d)
			}
		}
	}
	if i%53 == 0 {
		c.Sample(base)
	}
}
