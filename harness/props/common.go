package props

import (
	"bufio"
	"bytes"
	"errors"
	"fmt"
	"hash/adler32"
	"hash/crc32"
	"io"

	sflate "compress/flate"
	sgzip "compress/gzip"
	szlib "compress/zlib"

	"fgverif/gen"
	"fgverif/impl"
	"fgverif/mon"
	"fgverif/refinf"
	"fgverif/synth"
)

// Sink is the destination handed to Writers: records every call, can fail.
type Sink struct {
	Buf       bytes.Buffer
	Calls     int
	FailAt    int   // 1-based call index that fails; 0 = never
	FailErr   error // error returned at FailAt (and afterwards)
	Partial   bool  // the failing call reports len(p)/2 bytes written
	FullCount bool  // the failing call reports len(p) bytes written together with the error
	AfterFail int   // calls received after the first failure
	failed    bool
	Hook      func() // called at every Write (yield injection)
	Transient bool   // only the FailAt-th call fails; later calls succeed and are counted in AfterFail
}

func (s *Sink) Write(p []byte) (int, error) {
	s.Calls++
	if s.Hook != nil {
		s.Hook()
	}
	if s.failed {
		s.AfterFail++
		if !s.Transient {
			return 0, s.FailErr
		}
		s.Buf.Write(p)
		return len(p), nil
	}
	if s.FailAt > 0 && s.Calls == s.FailAt {
		s.failed = true
		if s.FullCount {
			s.Buf.Write(p)
			return len(p), s.FailErr
		}
		if s.Partial {
			n := len(p) / 2
			s.Buf.Write(p[:n])
			return n, s.FailErr
		}
		return 0, s.FailErr
	}
	s.Buf.Write(p)
	return len(p), nil
}

// Setting is one writer configuration.
type Setting struct {
	Wrapper string // flate, gzip, zlib
	Level   int
	Win4K   bool
	Dict    []byte
	Hdr     *impl.Header // gzip only: header fields set before the first call
}

func (s Setting) String() string {
	x := fmt.Sprintf("%s/L%d", s.Wrapper, s.Level)
	if s.Win4K {
		x += "/4K"
	}
	if s.Dict != nil {
		x += fmt.Sprintf("/dict%d", len(s.Dict))
	}
	if s.Hdr != nil {
		x += "/hdr"
		if s.Hdr.Extra != nil {
			x += fmt.Sprintf("/extra%d", len(s.Hdr.Extra))
		}
	}
	return x
}

// Accelerated says whether fastgo's own compressor (not compress/flate) serves
// this setting.
func (s Setting) Accelerated() bool {
	if s.Dict != nil {
		return false
	}
	if s.Win4K {
		return s.Level != 0
	}
	return s.Level == -2 || s.Level == -1 || s.Level == 1 || s.Level == 2
}

// NewWriter builds the writer for a setting on api.
func NewWriter(api *impl.API, s Setting, w io.Writer) (impl.Writer, error) {
	switch s.Wrapper {
	case "flate":
		if s.Dict != nil {
			return api.NewFlateWriterDict(w, s.Level, s.Dict)
		}
		if s.Win4K {
			if api.NewFlateWriter4K == nil {
				return api.NewFlateWriter(w, s.Level)
			}
			return api.NewFlateWriter4K(w, s.Level)
		}
		return api.NewFlateWriter(w, s.Level)
	case "gzip":
		z, err := api.NewGzipWriterLevel(w, s.Level)
		if err == nil && z != nil && s.Hdr != nil {
			z.SetHeader(*s.Hdr)
		}
		if err != nil || z == nil {
			return nil, err
		}
		return z, nil
	case "zlib":
		if s.Dict != nil {
			return api.NewZlibWriterLevelDict(w, s.Level, s.Dict)
		}
		return api.NewZlibWriterLevel(w, s.Level)
	}
	return nil, errors.New("bad wrapper")
}

var allLevels = []int{-2, -1, 0, 1, 2, 3, 4, 5, 6, 7, 8, 9}
var accelLevels = []int{-2, -1, 1, 2}

// RandomFlateSetting draws a flate setting, accelerated ones three times out of four.
func RandomFlateSetting(r *gen.Rand) Setting {
	s := Setting{Wrapper: "flate"}
	if r.Chance(3, 4) {
		s.Level = accelLevels[r.Intn(4)]
		s.Win4K = r.Chance(1, 3)
		return s
	}
	s.Level = allLevels[r.Intn(len(allLevels))]
	switch r.Intn(4) {
	case 0:
		s.Win4K = true
	case 1:
		s.Dict = MakeDict(r)
	}
	return s
}

func MakeDict(r *gen.Rand) []byte {
	switch r.Intn(5) {
	case 3:
		// longer than one and than two windows: only the last 32 KiB count
		return gen.Make(r, "text", r.Pick(32769, 40000, 65536, 65537, 70000, 100000)).B
	case 4:
		return r.Bytes(r.Pick(65537, 80000, 100000))
	case 0:
		return []byte("the quick brown fox compress deflate window huffman")
	case 1:
		return gen.Make(r, "text", 32768).B
	default:
		return gen.Make(r, "alpha16", r.Range(1, 5000)).B
	}
}

// payloadOf strips a gzip/zlib container produced without error down to its
// DEFLATE stream, using only format constants (header length is parsed, the
// trailer length is fixed).
func gzipDeflatePart(c []byte) ([]byte, bool) {
	if len(c) < 18 || c[0] != 0x1f || c[1] != 0x8b || c[2] != 8 {
		return nil, false
	}
	flg := c[3]
	p := 10
	if flg&4 != 0 {
		if p+2 > len(c) {
			return nil, false
		}
		p += 2 + int(c[p]) + int(c[p+1])<<8
	}
	if flg&8 != 0 {
		for p < len(c) && c[p] != 0 {
			p++
		}
		p++
	}
	if flg&16 != 0 {
		for p < len(c) && c[p] != 0 {
			p++
		}
		p++
	}
	if flg&2 != 0 {
		p += 2
	}
	if p > len(c)-8 {
		return nil, false
	}
	return c[p : len(c)-8], true
}

func zlibDeflatePart(c []byte) ([]byte, bool) {
	if len(c) < 6 {
		return nil, false
	}
	p := 2
	if c[1]&0x20 != 0 {
		p += 4
	}
	if p > len(c)-4 {
		return nil, false
	}
	return c[p : len(c)-4], true
}

// readAllSizes drains rd with the given destination sizes, checking the
// io.Reader contract on every call. It returns the bytes, the final error and
// a contract complaint ("" if none).
func readAllSizes(rd io.Reader, next func() int, limit int) (out []byte, err error, bad string) {
	zeros := 0
	var buf []byte
	dirty := 0
	for {
		n := next()
		if n < 1 {
			n = 1
		}
		if n > len(buf) {
			buf = make([]byte, n)
			for i := range buf {
				buf[i] = 0xEE
			}
		} else {
			for i := 0; i < dirty; i++ {
				buf[i] = 0xEE
			}
		}
		p := buf[:n]
		k, e := rd.Read(p)
		dirty = n
		if k >= 0 && k < n {
			dirty = k
		}
		if k < 0 || k > n {
			return out, e, fmt.Sprintf("Read returned n=%d for a %d-byte buffer", k, n)
		}
		out = append(out, p[:k]...)
		if e != nil {
			return out, e, ""
		}
		if k == 0 {
			zeros++
			if zeros > 1000 {
				return out, nil, "more than 1000 consecutive (0, nil) results"
			}
		} else {
			zeros = 0
		}
		if limit > 0 && len(out) > limit {
			return out, nil, fmt.Sprintf("output exceeds %d bytes", limit)
		}
	}
}

// DecodeChecks is the C01 oracle: emitted must be exactly one complete DEFLATE
// stream that the strict reference, compress/flate and fastgo's Reader all
// decode to data. It returns "" or a description, with a signature suffix.
func DecodeChecks(api *impl.API, emitted, data, dict []byte) (sig, what string, res *refinf.Result) {
	res = refinf.Inflate(emitted, refinf.Options{Strict: true, Dict: dict, MaxOut: len(data) + 1024})
	if res.Status != refinf.Complete {
		return "ref-not-complete", fmt.Sprintf("reference inflater: %s (emitted %d bytes, data %d bytes)", res, len(emitted), len(data)), res
	}
	if res.EndByte() != int64(len(emitted)) {
		return "trailing-bytes", fmt.Sprintf("reference inflater: stream ends at byte %d but %d bytes were emitted", res.EndByte(), len(emitted)), res
	}
	if !bytes.Equal(res.Out, data) {
		return "ref-wrong-data", fmt.Sprintf("reference inflater decodes %d bytes that differ from the %d written (first difference at %d)", len(res.Out), len(data), firstDiff(res.Out, data)), res
	}
	// standard library
	var sr io.Reader
	br := bytes.NewReader(emitted)
	if dict != nil {
		sr = sflate.NewReaderDict(br, dict)
	} else {
		sr = sflate.NewReader(br)
	}
	got, err := io.ReadAll(sr)
	if err != nil || !bytes.Equal(got, data) {
		return "stdlib-disagrees", fmt.Sprintf("compress/flate: err=%v, %d bytes, first difference at %d", err, len(got), firstDiff(got, data)), res
	}
	if br.Len() != 0 {
		return "stdlib-trailing", fmt.Sprintf("compress/flate left %d bytes unread", br.Len()), res
	}
	// fastgo's own reader
	var fr io.Reader
	if dict != nil {
		fr = api.NewFlateReaderDict(bytes.NewReader(emitted), dict)
	} else {
		fr = api.NewFlateReader(bytes.NewReader(emitted))
	}
	var got2 []byte
	var err2 error
	if pv, st := mon.Safe(func() { got2, err2 = io.ReadAll(fr) }); pv != nil {
		return "own-reader-panic", fmt.Sprintf("fastgo Reader panicked on the Writer's output: %v at %s", pv, st), res
	}
	if err2 != nil || !bytes.Equal(got2, data) {
		return "own-reader-disagrees", fmt.Sprintf("fastgo Reader: err=%v, %d bytes, first difference at %d", err2, len(got2), firstDiff(got2, data)), res
	}
	return "", "", res
}

func firstDiff(a, b []byte) int {
	n := len(a)
	if len(b) < n {
		n = len(b)
	}
	for i := 0; i < n; i++ {
		if a[i] != b[i] {
			return i
		}
	}
	if len(a) != len(b) {
		return n
	}
	return -1
}

// isPrefix reports whether a is a prefix of b.
func isPrefix(a, b []byte) bool { return len(a) <= len(b) && bytes.Equal(a, b[:len(a)]) }

// stdlibInflate decodes with compress/flate.
func stdlibInflate(in, dict []byte) ([]byte, error) {
	if dict != nil {
		return io.ReadAll(sflate.NewReaderDict(bytes.NewReader(in), dict))
	}
	return io.ReadAll(sflate.NewReader(bytes.NewReader(in)))
}

// encodeStd compresses with the standard library at a level, with flushes.
func encodeStd(data []byte, level int, flushAt []int) []byte {
	var b bytes.Buffer
	w, _ := sflate.NewWriter(&b, level)
	prev := 0
	for _, f := range flushAt {
		if f > len(data) {
			f = len(data)
		}
		if f < prev {
			f = prev
		}
		w.Write(data[prev:f])
		w.Flush()
		prev = f
	}
	w.Write(data[prev:])
	w.Close()
	return b.Bytes()
}

func encodeStdGzip(data []byte, level int) []byte {
	var b bytes.Buffer
	w, _ := sgzip.NewWriterLevel(&b, level)
	w.Write(data)
	w.Close()
	return b.Bytes()
}

func encodeStdZlib(data []byte, level int, dict []byte) []byte {
	var b bytes.Buffer
	w, _ := szlib.NewWriterLevelDict(&b, level, dict)
	w.Write(data)
	w.Close()
	return b.Bytes()
}

// runOps drives a writer through ops over data, returning the first error.
func runOps(w impl.Writer, data []byte, ops []gen.Op) error {
	pos := 0
	for _, o := range ops {
		var err error
		switch o.Kind {
		case "write":
			_, err = w.Write(data[pos : pos+o.N])
			pos += o.N
		case "flush":
			err = w.Flush()
		case "close":
			err = w.Close()
		}
		if err != nil {
			return err
		}
	}
	return nil
}

// bufioOf wraps a reader in a bufio of exactly the given size.
func bufioOf(r io.Reader, size int) *bufio.Reader { return bufio.NewReaderSize(r, size) }

// chunkReader delivers its data in prescribed chunk sizes; when DataWithEOF
// it returns the last chunk together with io.EOF.
type chunkReader struct {
	data        []byte
	next        func() int
	dataWithEOF bool
	finalErr    error // returned instead of io.EOF when set
	reads       int
}

func (c *chunkReader) Read(p []byte) (int, error) {
	c.reads++
	if len(c.data) == 0 {
		if c.finalErr != nil {
			return 0, c.finalErr
		}
		return 0, io.EOF
	}
	n := c.next()
	if n < 1 {
		n = 1
	}
	if n > len(p) {
		n = len(p)
	}
	if n > len(c.data) {
		n = len(c.data)
	}
	copy(p, c.data[:n])
	c.data = c.data[n:]
	if len(c.data) == 0 && c.dataWithEOF {
		if c.finalErr != nil {
			return n, c.finalErr
		}
		return n, io.EOF
	}
	return n, nil
}

// The standard library's dictionary writer (compress/flate deflate.go,
// fillWindow leaves blockStart at 0) emits the dictionary itself as payload
// when its first block is stored: levels 2..9, incompressible data, a
// dictionary small enough that "stored" still wins. fastgo delegates every
// dictionary writer to it. The signature names exactly that circumstance: the
// stream decodes to dictionary + data.
const sigDictReplay = "delegated-dict-writer|stream-decodes-to-dictionary-plus-data"
const whatDictReplay = "the dictionary writer (delegated to compress/flate) emitted a stream that decodes to the dictionary followed by the data"

func isDelegatedDictReplay(decoded, data, dict []byte) bool {
	if len(dict) == 0 || len(decoded) != len(dict)+len(data) {
		return false
	}
	return bytes.Equal(decoded[:len(dict)], dict) && bytes.Equal(decoded[len(dict):], data)
}

func implErrClass(err error) string { return impl.ErrClass(err) }

func adler(b []byte) uint32 { return adler32.Checksum(b) }

func be32(v uint32) []byte { return []byte{byte(v >> 24), byte(v >> 16), byte(v >> 8), byte(v)} }
func le32(v uint32) []byte { return []byte{byte(v), byte(v >> 8), byte(v >> 16), byte(v >> 24)} }

func gzipTrailer(plain []byte) []byte {
	return append(le32(crc32.ChecksumIEEE(plain)), le32(uint32(len(plain)))...)
}

// encodeDictStd compresses with the standard library's dictionary writer.
// (Used only where the exact stream does not matter: see sigDictReplay.)
func encodeDictStd(data []byte, level int, dict []byte) ([]byte, error) {
	var b bytes.Buffer
	w, err := sflate.NewWriterDict(&b, level, dict)
	if err != nil {
		return nil, err
	}
	w.Write(data)
	w.Close()
	return b.Bytes(), nil
}

// synthDictStream builds a raw DEFLATE stream whose matches may reach into a
// preset dictionary, with the plaintext it stands for.
func synthDictStream(r *gen.Rand, dict []byte, n int) (stream, plain []byte) {
	s := synth.NewStream(r)
	toks := synth.RandomTokens(r, len(dict), n, "mixed")
	full, ok := synth.Apply(append([]byte(nil), dict...), toks)
	if !ok {
		panic("synthDictStream: tokens not applicable")
	}
	if r.Bool() {
		s.Fixed(true, toks, true)
	} else {
		lit, dist := synth.LengthsFor(r, toks, synth.CodeOpts{})
		sp := synth.NewDynSpec()
		sp.LitLens, sp.DistLens = lit, dist
		s.Dynamic(true, toks, sp, true)
	}
	return s.W.Bytes(), full[len(dict):]
}

// synthDictStreamFar is synthDictStream whose first symbol is a match at
// distance 32768 (the dictionary must be at least that long), followed by a few
// more matches that reach as far back as the format allows.
func synthDictStreamFar(r *gen.Rand, dict []byte, n int) (stream, plain []byte) {
	s := synth.NewStream(r)
	toks := []synth.Token{synth.Match(r.Range(3, 258), 32768)}
	have := toks[0].Len
	for k := 0; k < 3; k++ {
		toks = append(toks, synth.Lit(byte(r.Intn(256))), synth.Match(r.Range(3, 40), 32768-r.Intn(3)))
		have += 1 + toks[len(toks)-1].Len
	}
	toks = append(toks, synth.RandomTokens(r, len(dict)+have, n, "mixed")...)
	full, ok := synth.Apply(append([]byte(nil), dict...), toks)
	if !ok {
		panic("synthDictStreamFar: tokens not applicable")
	}
	if r.Bool() {
		s.Fixed(true, toks, true)
	} else {
		lit, dist := synth.LengthsFor(r, toks, synth.CodeOpts{})
		sp := synth.NewDynSpec()
		sp.LitLens, sp.DistLens = lit, dist
		s.Dynamic(true, toks, sp, true)
	}
	return s.W.Bytes(), full[len(dict):]
}

// dictSlices builds data out of pieces of the dictionary (from every region of
// it, not only the part a decoder keeps) and some noise.
func dictSlices(r *gen.Rand, dict []byte, n int) []byte {
	out := make([]byte, 0, n+300)
	for len(out) < n {
		if r.Chance(1, 4) || len(dict) < 8 {
			out = append(out, r.Bytes(r.Range(1, 20))...)
			continue
		}
		l := r.Range(4, 300)
		if l > len(dict) {
			l = len(dict)
		}
		var at int
		switch r.Intn(3) {
		case 0:
			at = r.Intn(len(dict) - l + 1)
		case 1: // the tail every decoder keeps
			lo := len(dict) - 32768
			if lo < 0 {
				lo = 0
			}
			at = lo + r.Intn(len(dict)-l-lo+1)
		default: // the region between one and two windows from the start
			lo, hi := 32768, 65536
			if hi > len(dict)-l {
				hi = len(dict) - l
			}
			if lo > hi {
				lo = 0
			}
			if hi < lo {
				hi = lo
			}
			at = lo + r.Intn(hi-lo+1)
		}
		out = append(out, dict[at:at+l]...)
	}
	return out[:n]
}

// halvingData: symbol i occurs 2^(top-i) times (shuffled), so the code lengths
// form a chain up to the 15-bit limit; pad copies of the most frequent symbol in
// front shift the bit phase at the end; the last three bytes are symbols that
// occur nowhere else (they and the end-of-block code get the longest codes).
func halvingData(r *gen.Rand, top, pad int) []byte {
	perm := r.Perm(256)
	var base []byte
	for i := 0; i <= top; i++ {
		for k := 0; k < 1<<uint(top-i); k++ {
			base = append(base, byte(perm[i]))
		}
	}
	for i := len(base) - 1; i > 0; i-- {
		k := r.Intn(i + 1)
		base[i], base[k] = base[k], base[i]
	}
	out := append(bytes.Repeat([]byte{byte(perm[0])}, pad), base...)
	return append(out, byte(perm[200]), byte(perm[201]), byte(perm[202]))
}

// handBuiltGzipMember assembles a gzip member with FHCRC (and maybe FTEXT and
// the optional fields), which no Go writer emits.
func handBuiltGzipMember(r *gen.Rand, payload []byte, level int) []byte {
	flg := byte(2) | byte(r.Intn(2))
	var extra, name, comment []byte
	if r.Bool() {
		flg |= 4
		// short, or longer than the read buffers in use (4096; 65535 is the maximum)
		extra = r.Bytes(r.Pick(0, 1, 5, 20, 20, 20, 4096, 5000, 65535))
	}
	if r.Bool() {
		flg |= 8
		name = []byte("name\x00")
	}
	if r.Bool() {
		flg |= 16
		comment = []byte("a comment\x00")
	}
	hdr := []byte{0x1f, 0x8b, 8, flg, byte(r.Intn(256)), 0, 0, 0, byte(r.Pick(0, 2, 4)), byte(r.Intn(256))}
	if flg&4 != 0 {
		hdr = append(hdr, byte(len(extra)), byte(len(extra)>>8))
		hdr = append(hdr, extra...)
	}
	hdr = append(hdr, name...)
	hdr = append(hdr, comment...)
	c16 := uint16(crc32.ChecksumIEEE(hdr))
	hdr = append(hdr, byte(c16), byte(c16>>8))
	out := append(hdr, encodeStd(payload, level, nil)...)
	return append(out, gzipTrailer(payload)...)
}

// tokenCapFarCopy builds total bytes: K zeros, then random bytes (one token
// each), with, at every point where a 4 KiB-window Writer's input buffer fills
// (8450+4354j for the assembly finders, 8442+4346j for the Go finder), a short
// near repeat followed by a 32-byte repeat from dist bytes back.
func tokenCapFarCopy(r *gen.Rand, K, total, dist int) gen.Data {
	d := make([]byte, total)
	r.Fill(d[K:])
	for _, ps := range [][2]int{{8450, 4354}, {8442, 4346}} {
		for x := ps[0]; x+60 < total; x += ps[1] {
			if x-dist-8 >= K {
				copy(d[x:x+8], d[x-100:x-92])
				copy(d[x+8:x+40], d[x+8-dist:x+8-dist+32])
				copy(d[x+40:x+48], d[x-60:x-52])
			}
		}
	}
	return gen.Data{Desc: fmt.Sprintf("token-cap-far-copy/K=%d/dist=%d/%d", K, dist, total), B: d}
}

// Error values of unusual dynamic types for fault injection: a timeout-typed
// error (net.Error style) and an error whose dynamic type is not comparable
// (comparing two interface values holding it panics).
type deadlineErr struct{ msg string }

func (e *deadlineErr) Error() string   { return e.msg }
func (e *deadlineErr) Timeout() bool   { return true }
func (e *deadlineErr) Temporary() bool { return true }

type sliceErr []string

func (e sliceErr) Error() string { return "uncomparable error: " + e[0] }
func (e sliceErr) Is(t error) bool {
	o, ok := t.(sliceErr)
	return ok && len(o) > 0 && len(e) > 0 && &o[0] == &e[0]
}

// faultError returns an injected error of the kind selected by k.
func faultError(k int, msg string) (error, string) {
	switch k % 5 {
	case 3:
		return &deadlineErr{msg}, "timeout-typed"
	case 4:
		return sliceErr{msg}, "uncomparable-type"
	}
	return errors.New(msg), "plain"
}

// gzipHeaderVariant returns header fields for a gzip Writer: nil (defaults), an
// empty non-nil Extra, short and maximal Extra, names and comments.
func gzipHeaderVariant(r *gen.Rand, k int) *impl.Header {
	switch k % 6 {
	case 1:
		return &impl.Header{Extra: []byte{}}
	case 2:
		return &impl.Header{Extra: r.Bytes(r.Range(1, 40)), Name: "n"}
	case 3:
		return &impl.Header{Extra: r.Bytes(65535), Comment: "c"}
	case 4:
		return &impl.Header{Name: "name.txt", Comment: "comment", OS: 3}
	case 5:
		return &impl.Header{Extra: r.Bytes(r.Range(1, 600)), Name: "a", Comment: "b"}
	}
	return nil
}

// errIdentical is a == b for error values whose dynamic type may be
// uncomparable (for those: b matches a through a's Is method).
func errIdentical(a, b error) (same bool) {
	defer func() {
		if recover() != nil {
			same = errors.Is(a, b)
		}
	}()
	return a == b
}
