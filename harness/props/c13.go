package props

import (
	"bytes"
	"errors"
	"fmt"
	"io"

	"fgverif/gen"
	"fgverif/impl"
	"fgverif/mon"
	"fgverif/synth"
)

// C13 — Reader.Reset makes a used Reader indistinguishable from a new one.
type c13 struct{}

func init() { register(c13{}) }

func (c13) ID() string            { return "C13" }
func (c13) EvidenceLevel() string { return "exploration" }
func (c13) Rule() string {
	return "case = (reader kind flate/gzip/zlib, earlier history in {read completely, stopped after k bytes with undelivered output, stopped inside a header (truncated source), ended in CorruptInputError, ended in a source error, at io.EOF, never read}, next input in {valid stream; stream whose first match reaches 1..32768 bytes before its own start; stream using an unassigned code whose table slot the previous stream filled; truncated stream; zlib with/without FDICT after a Reader created without/with a dictionary}, source kind, read schedule). The reused Reader's (bytes, error kind) must equal a fresh Reader's on an identical source; for valid inputs both must equal the payload. The earlier stream's plaintext is a marker pattern. Non-trivial: the earlier history left state behind (anything but never-read); distinct by (history, next-input digest, kind)."
}
func (c13) NumCases(tier string) int {
	if tier == "thorough" {
		return 80000
	}
	return 4000
}

var errSrc = errors.New("c13: earlier source failed")

var c13Marker = bytes.Repeat([]byte{0xC3, 0x3C, 0x5A, 0xA5, 'M', 'A', 'R', 'K'}, 6000) // 48000 bytes

type c13Reader struct {
	kind string
	fl   impl.FlateReader
	gz   impl.GzipReader
	zl   impl.ZlibReader
}

func (r *c13Reader) Read(p []byte) (int, error) {
	switch r.kind {
	case "flate":
		return r.fl.Read(p)
	case "gzip":
		return r.gz.Read(p)
	}
	return r.zl.Read(p)
}

func c13New(api *impl.API, kind string, src io.Reader, dict []byte) (*c13Reader, error) {
	r := &c13Reader{kind: kind}
	var err error
	switch kind {
	case "flate":
		r.fl = api.NewFlateReader(src)
	case "gzip":
		r.gz, err = api.NewGzipReader(src)
	case "zlib":
		if dict != nil {
			r.zl, err = api.NewZlibReaderDict(src, dict)
		} else {
			r.zl, err = api.NewZlibReader(src)
		}
	}
	return r, err
}

func (r *c13Reader) Reset(src io.Reader, dict []byte) error {
	switch r.kind {
	case "flate":
		return r.fl.Reset(src, nil)
	case "gzip":
		return r.gz.Reset(src)
	}
	return r.zl.Reset(src, dict)
}

func c13Wrap(kind string, deflate []byte, plain []byte, dict []byte, r *gen.Rand) []byte {
	switch kind {
	case "gzip":
		out := []byte{0x1f, 0x8b, 8, 0, 0, 0, 0, 0, 0, 255}
		out = append(out, deflate...)
		return append(out, gzipTrailer(plain)...)
	case "zlib":
		out := []byte{0x78, 0x9c}
		if dict != nil {
			out = []byte{0x78, 0xbb} // FDICT set, FCHECK: 0x78bb % 31 == 0
			out = append(out, be32(adler(dict))...)
		}
		out = append(out, deflate...)
		return append(out, be32(adler(plain))...)
	}
	return deflate
}

func (c13) Run(c *mon.Ctx, i int) {
	r := c.R
	rolling := false // zlib: the dictionary buffer is overwritten in place before Reset
	kind := []string{"flate", "flate", "gzip", "zlib"}[i%4]
	history := []string{"complete", "partial-undelivered", "inside-header", "corrupt", "source-error", "at-eof", "never-read", "partial-undelivered", "faulty-synth", "faulty-synth"}[r.Intn(10)]
	// dictionaries (zlib only)
	var dict0, dict1 []byte // dict for construction, dict for Reset
	if kind == "zlib" {
		if r.Bool() {
			dict0 = gen.Make(r, "text", r.Range(10, 400)).B
		}
		if r.Bool() {
			dict1 = gen.Make(r, "alpha16", r.Range(10, 400)).B
		}
	}
	longDict := false
	if kind == "zlib" && i%8 == 3 {
		// dictionaries of one window and more on both streams; the next stream
		// begins with a match at the largest distance (the first dictionary byte
		// a decoder may still need)
		longDict = true
		dict0 = gen.Make(r, "text", r.Pick(300, 32768, 40000)).B
		dict1 = gen.Make(r, "alpha16", r.Pick(32768, 32769, 32770, 40000, 70000)).B
		c.Count("zlib-long-dictionary-cases", 1)
	}
	if kind == "zlib" && dict0 != nil && !longDict && r.Chance(1, 3) {
		// a rolling dictionary: the caller reuses one buffer; its contents are
		// replaced in place between the streams and the same slice is passed to Reset
		rolling = true
		dict1 = gen.Make(r, "alpha16", len(dict0)).B
	}
	// earlier stream
	prevPlain := append(append([]byte(nil), c13Marker...), gen.Make(r, "text", r.Range(0, 40000)).B...)
	var prevDeflate []byte
	if dict0 != nil {
		prevDeflate, _ = encodeDictStd(prevPlain, r.Pick(1, 6), dict0)
	} else {
		prevDeflate = encodeStd(prevPlain, r.Pick(0, 1, 6, -2), nil)
	}
	if history == "faulty-synth" {
		// a stream that fails inside a block header or body after valid blocks
		// (fixed and dynamic) have set up tables: every single-fault shape
		f := synth.Faults[r.Intn(len(synth.Faults))]
		st, pp, _ := synth.Faulty(r, f, r.Pick(1, 1, 2, 3))
		prevDeflate = append(st, make([]byte, 40)...)
		prevPlain = pp
	}
	prev := c13Wrap(kind, prevDeflate, prevPlain, dict0, r)
	var prevSrc io.Reader
	switch history {
	case "inside-header":
		cut := r.Range(1, 14)
		if kind != "flate" {
			cut += 12
		}
		if cut > len(prev) {
			cut = len(prev)
		}
		prevSrc = bytes.NewReader(prev[:cut])
	case "corrupt":
		bad := append([]byte(nil), prev...)
		if len(bad) > 40 {
			for k := 0; k < 6; k++ {
				bad[20+r.Intn(len(bad)-20)] ^= byte(1 << uint(r.Intn(8)))
			}
		}
		prevSrc = bytes.NewReader(bad)
	case "source-error":
		prevSrc = &chunkReader{data: append([]byte(nil), prev[:len(prev)/2]...), next: func() int { return 500 }, finalErr: errSrc}
	default:
		prevSrc = bytes.NewReader(prev)
	}
	prevWithTail := append(append([]byte(nil), prev...), []byte("trailing bytes behind the earlier stream that get read ahead")...)

	// next input
	nextKind := []string{"valid", "valid", "reach-before-start", "stale-table", "truncated", "valid-dict", "fixed-with-matches"}[r.Intn(7)]
	if longDict {
		nextKind = "valid-dict"
	}
	var nextDeflate, nextPlain []byte
	valid := false
	nextDesc := nextKind
	switch nextKind {
	case "valid", "valid-dict":
		if kind == "zlib" && dict1 != nil {
			if longDict {
				nextDeflate, nextPlain = synthDictStreamFar(r, dict1, r.Range(1, 3000))
			} else {
				nextDeflate, nextPlain = synthDictStream(r, dict1, r.Range(1, 3000))
			}
			nextDesc += " synthesised stream with matches into the dictionary"
		} else {
			vs := RandomValidStream(r, 60000)
			nextDeflate, nextPlain = vs.S, vs.Plain
			nextDesc += " " + vs.Desc
		}
		valid = true
	case "fixed-with-matches":
		// fixed-code blocks first (they rely on the static tables being put back)
		fs := synth.NewStream(r)
		for b := 0; b < 2; b++ {
			fs.Fixed(b == 1, synth.RandomTokens(r, len(fs.Plain), r.Range(20, 2000), "mixed"), true)
		}
		nextDeflate, nextPlain = fs.W.Bytes(), fs.Plain
		valid = true
		dict1 = nil
	case "reach-before-start":
		s := synth.NewStream(r)
		lead := r.Intn(20)
		var toks []synth.Token
		for k := 0; k < lead; k++ {
			toks = append(toks, synth.Lit(byte(r.Intn(256))))
		}
		d := lead + r.Pick(1, 2, 8, 100, 4096, 30000, 32768-lead)
		if d > 32768 {
			d = 32768
		}
		toks = append(toks, synth.Match(r.Range(3, 258), d))
		toks = append(toks, synth.RandomTokens(r, 400, r.Range(0, 100), "lits")...)
		if r.Bool() {
			s.Fixed(true, toks, true)
		} else {
			lit, dist := synth.LengthsFor(r, toks, synth.CodeOpts{})
			sp := synth.NewDynSpec()
			sp.LitLens, sp.DistLens = lit, dist
			s.Dynamic(true, toks, sp, true)
		}
		nextDeflate = append(s.W.Bytes(), make([]byte, 40)...)
		nextDesc += fmt.Sprintf(" dist=%d lead=%d", d, lead)
		dict1 = nil
	case "stale-table":
		st, _, d := synth.Faulty(r, []string{"unassigned-dist", "empty-dist-used", "one-dist-code-other-used", "unassigned-lit", "unassigned-cl"}[r.Intn(5)], 0)
		nextDeflate = append(st, make([]byte, 40)...)
		nextDesc += " " + d
		dict1 = nil
	case "truncated":
		vs := RandomValidStream(r, 20000)
		k := 0
		if len(vs.S) > 0 {
			k = r.Intn(len(vs.S))
		}
		nextDeflate, nextPlain = vs.S[:k], vs.Plain
		dict1 = nil
	}
	if kind != "zlib" {
		dict1 = nil
	}
	next := nextDeflate
	twoMembers := kind == "gzip" && valid && r.Chance(1, 3)
	if kind != "flate" {
		next = c13Wrap(kind, nextDeflate, nextPlain, dict1, r)
		if twoMembers {
			// Reset must also restore the default multistream mode
			extra := gen.Make(r, "text", r.Range(1, 3000)).B
			next = append(next, encodeStdGzip(extra, 6)...)
			nextPlain = append(append([]byte(nil), nextPlain...), extra...)
		}
		if nextKind == "truncated" && len(next) > 4 {
			next = next[:len(next)-r.Range(1, 4)]
		}
	}
	srcKind := []string{"bytes.Reader", "bufio64", "bufio4096", "chunks", "same-object-rearmed"}[r.Intn(5)]
	if srcKind == "same-object-rearmed" && (kind != "flate" || history == "source-error") {
		srcKind = "bytes.Reader"
	}
	var rearm *bytes.Reader
	mk := func() io.Reader {
		switch srcKind {
		case "same-object-rearmed":
			if rearm != nil {
				// the very object the earlier stream was read from, re-armed in place
				rearm.Reset(next)
				return rearm
			}
			return bytes.NewReader(next)
		case "bufio64":
			return bufioOf(bytes.NewReader(next), 64)
		case "bufio4096":
			return bufioOf(bytes.NewReader(next), 4096)
		case "chunks":
			cr := gen.New(uint64(i)*77 + 5)
			return &chunkReader{data: append([]byte(nil), next...), next: func() int { return cr.Range(1, 300) }}
		}
		return bytes.NewReader(next)
	}
	style := gen.ReadStyles[2+r.Intn(5)]
	seedSizes := r.U64()
	limit := len(nextPlain) + 4<<20

	type outcome struct {
		out  []byte
		errK string
		ctor string
	}
	run := func(rd *c13Reader, ctorErr error) outcome {
		if ctorErr != nil {
			return outcome{errK: impl.ErrClass(ctorErr), ctor: "constructor/Reset failed"}
		}
		out, err, bad := readAllSizes(rd, gen.ReadSizes(gen.New(seedSizes), style), limit)
		if bad != "" {
			return outcome{out: out, errK: "contract:" + bad}
		}
		return outcome{out: out, errK: impl.ErrClass(err)}
	}
	var fresh, reused outcome
	pv, st := mon.Safe(func() {
		rd, err := c13New(c.API, kind, mk(), dict1)
		fresh = run(rd, err)
	})
	desc := map[string]interface{}{"reader": kind, "history": history, "next": nextDesc, "next_len": len(next), "next_sha": mon.Sha(next), "source": srcKind,
		"dict_at_construction": dict0 != nil, "dict_at_reset": dict1 != nil, "dictionary_buffer_overwritten_in_place": rolling, "read_style": style}
	if len(next) <= 1200 {
		desc["next_hex"] = mon.Hex(next, 1200)
	}
	if pv != nil {
		desc["stack"] = st
		c.Violate("panic|"+mon.PanicSite(st)+"|fresh", fmt.Sprintf("fresh reader panicked: %v", pv), desc)
		return
	}
	if srcKind == "same-object-rearmed" {
		rearm = bytes.NewReader(prevWithTail)
		prevSrc = rearm
	}
	pv, st = mon.Safe(func() {
		rd, err := c13New(c.API, kind, prevSrc, dict0)
		if err != nil {
			// the earlier stream's header could not even be read (inside-header
			// histories for gzip/zlib): there is no Reader to reuse
			reused = outcome{ctor: "skip"}
			return
		}
		if rd.gz != nil && r.Bool() {
			rd.gz.Multistream(false)
		}
		switch history {
		case "complete", "at-eof", "corrupt", "source-error", "inside-header", "faulty-synth":
			io.Copy(io.Discard, rd)
			if history == "at-eof" {
				rd.Read(make([]byte, 10))
			}
		case "partial-undelivered":
			rd.Read(make([]byte, r.Range(1, 500)))
		case "never-read":
		}
		resetDict := dict1
		if rolling && dict1 != nil && len(dict1) == len(dict0) {
			copy(dict0, dict1) // same backing array, new contents
			resetDict = dict0
		}
		err = rd.Reset(mk(), resetDict)
		reused = run(rd, err)
	})
	c.Eval(2)
	if pv != nil {
		desc["stack"] = st
		c.Violate("panic|"+mon.PanicSite(st)+"|reused", fmt.Sprintf("reused reader panicked: %v", pv), desc)
		return
	}
	if reused.ctor == "skip" {
		c.Count("skipped:no-reader-to-reuse", 1)
		return
	}
	desc["fresh"] = fmt.Sprintf("%d bytes, %s %s", len(fresh.out), fresh.errK, fresh.ctor)
	desc["reused"] = fmt.Sprintf("%d bytes, %s %s", len(reused.out), reused.errK, reused.ctor)
	where := fmt.Sprintf("reader=%s|history=%s|next=%s", kind, history, nextKind)
	switch {
	case !bytes.Equal(fresh.out, reused.out):
		extra := ""
		if bytes.Contains(reused.out, c13Marker[:64]) {
			extra = " — the earlier stream's plaintext appears in the new output"
			where += "|old-data-leaked"
		}
		c.Violate("bytes-differ|"+where, fmt.Sprintf("after %s and Reset the reader returns %d bytes (%s); a fresh reader returns %d bytes (%s); first difference at %d%s", history, len(reused.out), reused.errK, len(fresh.out), fresh.errK, firstDiff(fresh.out, reused.out), extra), desc)
	case fresh.errK != reused.errK || fresh.ctor != reused.ctor:
		c.Violate("error-differs|"+where+"|"+short(fresh.errK)+"->"+short(reused.errK), fmt.Sprintf("after %s and Reset the reader ends in %s %s; a fresh reader ends in %s %s", history, reused.errK, reused.ctor, fresh.errK, fresh.ctor), desc)
	case valid && (fresh.errK != "EOF" || !bytes.Equal(fresh.out, nextPlain)):
		c.Violate("valid-next-misread|reader="+kind+"|dict="+fmt.Sprint(dict1 != nil), fmt.Sprintf("both readers return %d bytes then %s for a valid %s stream of %d bytes", len(fresh.out), fresh.errK, kind, len(nextPlain)), desc)
	}
	if c.Violated() {
		return
	}
	c.Count("history:"+history, 1)
	c.Count("next:"+nextKind, 1)
	c.Count("reader:"+kind, 1)
	c.Count("outcome:"+short(fresh.errK), 1)
	if dict0 != nil || dict1 != nil {
		c.Count(fmt.Sprintf("zlib-dict:%v->%v", dict0 != nil, dict1 != nil), 1)
	}
	if history != "never-read" {
		c.Nontrivial(kind, history, next, srcKind)
	}
	if i%211 == 0 {
		c.Sample(desc)
	}
}

func short(s string) string {
	if len(s) > 24 {
		return s[:24]
	}
	return s
}
