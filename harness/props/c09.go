package props

import (
	"bytes"
	"fmt"

	"fgverif/gen"
	"fgverif/impl"
	"fgverif/mon"
)

// C09 — compressed bytes depend only on the data and Flush positions, not on
// Write sizes.
type c09 struct{}

func init() { register(c09{}) }

func (c09) ID() string            { return "C09" }
func (c09) EvidenceLevel() string { return "exploration" }
func (c09) Rule() string {
	return "case = (accelerated setting: levels -2,-1,1,2 x 32K/4K window, flate/gzip/zlib; data usually >= 3 buffer roll-overs long; a set of Flush positions; 3 (quick) or 5 (thorough) different partitions of the same data into Write calls: one Write per Flush segment, random sizes, sizes ending exactly at / one byte around 2W+258 and 64 KiB multiples, zero-length writes sprinkled in, single bytes for inputs <= 20000). All emissions must be byte-identical. Non-trivial: at least two genuinely different partitions of non-empty data; distinct by (setting, data digest, flush set, partition pair). Every 25th case is a checksum stress through zlib/gzip: a random prefix, then 5552..2^20 bytes of 0xff/0xfe/0x00 within one Write."
}
func (c09) NumCases(tier string) int {
	if tier == "thorough" {
		return 20000
	}
	return 2500
}

func emit(api *impl.API, s Setting, data []byte, ops []gen.Op) ([]byte, error) {
	var b bytes.Buffer
	w, err := NewWriter(api, s, &b)
	if err != nil {
		return nil, err
	}
	if err := runOps(w, data, ops); err != nil {
		return nil, err
	}
	return b.Bytes(), nil
}

func (c09) Run(c *mon.Ctx, i int) {
	r := c.R
	s := accelSettings[r.Intn(len(accelSettings))]
	if i%5 == 4 {
		s.Wrapper = []string{"gzip", "zlib"}[r.Intn(2)]
		s.Win4K = false
	}
	var d gen.Data
	switch i % 4 {
	case 0:
		d = gen.RandomData(r, 0)
	case 1:
		w := 32768
		if s.Win4K {
			w = 4096
		}
		d = gen.Make(r, gen.Families[r.Intn(len(gen.Families))], 3*(2*w+258)+r.Range(-5, 70000))
	case 2:
		d = gen.Make(r, gen.Families[r.Intn(len(gen.Families))], r.Range(1, 20000))
	default:
		d = gen.Make(r, gen.Families[r.Intn(len(gen.Families))], 65536*r.Range(1, 3)+r.Range(-3, 3))
	}
	n := len(d.B)
	flushes := gen.FlushPositions(r, n)
	var fixedParts [][]gen.Op
	if i%8 == 5 && s.Level != -2 {
		// A Flush that leaves the buffered end inside the last 258 bytes of the
		// input buffer, then Writes that exactly fill the rest of it, stop one
		// byte short, straddle it, or come byte by byte.
		W := 32768
		if s.Win4K {
			W = 4096
		}
		ro := 2*W + 258
		cyc := r.Pick(0, 0, 1, 2) * (W + 258)
		f := cyc + 2*W + r.Pick(0, 0, 1, 2, 257, r.Intn(258), r.Intn(258), r.Intn(258))
		d = gen.Make(r, []string{"text", "period", "runs", "alpha4", "farcopy"}[r.Intn(5)], cyc+ro+W+258+r.Range(100, 5000))
		n = len(d.B)
		flushes = []int{f}
		if r.Bool() {
			flushes = []int{f, f}
		}
		fill := cyc + ro - f
		mk := func(parts ...int) []gen.Op {
			ops := []gen.Op{{Kind: "write", N: f}}
			for range flushes {
				ops = append(ops, gen.Op{Kind: "flush"})
			}
			used := f
			for _, p := range parts {
				ops = append(ops, gen.Op{Kind: "write", N: p})
				used += p
			}
			return append(ops, gen.Op{Kind: "write", N: n - used}, gen.Op{Kind: "close"})
		}
		fixedParts = [][]gen.Op{mk(fill), mk(fill-1, 1), mk(fill - 1), mk(fill + 1), mk(fill/2, fill-fill/2)}
		var ones []int
		for k := 0; k < fill+3; k++ {
			ones = append(ones, 1)
		}
		fixedParts = append(fixedParts, mk(ones...))
		c.Count("tail-fill-cases", 1)
	}
	if i%8 == 5 && s.Level == -2 {
		// Huffman-only: Write boundaries at, one, two and three bytes before the
		// 64 KiB block fills, in the first and in a later block
		blk := 65536
		base := r.Pick(0, 0, 1) * blk
		d = gen.Make(r, gen.Families[r.Intn(len(gen.Families))], base+blk+r.Range(1000, 70000))
		n = len(d.B)
		flushes = nil
		if base > 0 && r.Bool() {
			flushes = []int{base}
		}
		mk := func(cuts ...int) []gen.Op {
			var ops []gen.Op
			prev := 0
			fl := append([]int(nil), flushes...)
			for _, c := range cuts {
				if c > n {
					c = n
				}
				for len(fl) > 0 && fl[0] <= c {
					if fl[0] > prev {
						ops = append(ops, gen.Op{Kind: "write", N: fl[0] - prev})
						prev = fl[0]
					}
					ops = append(ops, gen.Op{Kind: "flush"})
					fl = fl[1:]
				}
				if c > prev {
					ops = append(ops, gen.Op{Kind: "write", N: c - prev})
					prev = c
				}
			}
			if n > prev {
				ops = append(ops, gen.Op{Kind: "write", N: n - prev})
			}
			return append(ops, gen.Op{Kind: "close"})
		}
		e := base + blk
		fixedParts = [][]gen.Op{mk(e - 1), mk(e - 2), mk(e - 3), mk(e), mk(e + 1), mk(e-2, e-1), mk(e-1, e+blk-1), mk(e-2, e+blk-2)}
		c.Count("huffonly-block-edge-cases", 1)
	}
	if i%25 == 3 && fixedParts == nil {
		// Flush before any data (once or twice), with and without zero-length
		// Writes around it: the same Flush positions, so the same bytes
		s.Wrapper = []string{"zlib", "gzip", "flate"}[(i/25)%3]
		if s.Wrapper != "flate" {
			s.Win4K = false
		}
		d = gen.Make(r, gen.Families[r.Intn(8)], r.Pick(0, 1, 100, 70000))
		n = len(d.B)
		flushes = []int{0}
		if r.Bool() {
			flushes = []int{0, 0}
		}
		var fl []gen.Op
		for range flushes {
			fl = append(fl, gen.Op{Kind: "flush"})
		}
		cat := func(parts ...[]gen.Op) []gen.Op {
			var o []gen.Op
			for _, p := range parts {
				o = append(o, p...)
			}
			return append(o, gen.Op{Kind: "write", N: n}, gen.Op{Kind: "close"})
		}
		z := []gen.Op{{Kind: "write", N: 0}}
		fixedParts = [][]gen.Op{cat(fl), cat(z, fl), cat(fl, z), cat(z, fl, z), cat(z, z, fl)}
		if len(fl) == 2 {
			fixedParts = append(fixedParts, cat(fl[:1], z, fl[1:]))
		}
		c.Count("flush-before-data-cases", 1)
	}
	if i%25 == 12 && fixedParts == nil {
		// checksum stress: long runs of the largest byte values inside one Write
		// (the running sums of Adler-32 are largest there) behind a prefix that
		// puts the sums anywhere, through the wrappers that keep a checksum
		s.Wrapper = []string{"zlib", "zlib", "gzip"}[r.Intn(3)]
		s.Win4K = false
		v := byte(r.Pick(0xff, 0xff, 0xff, 0xfe, 0x00))
		b := r.Bytes(r.Range(0, 70000))
		run := r.Pick(5552, 5553, 5568, 11136, 70000, 500000, 1<<20)
		for j := 0; j < run; j++ {
			b = append(b, v)
		}
		b = append(b, r.Bytes(r.Range(0, 100))...)
		d = gen.Data{Desc: fmt.Sprintf("random+run-of-%02x/%d", v, run), B: b}
		n = len(b)
		flushes = nil
		c.Count("checksum-stress-cases", 1)
	}
	ref, err := emit(c.API, s, d.B, gen.Schedule(r, n, flushes, "one"))
	if err != nil {
		c.Count("dropped:writer-error", 1)
		return
	}
	c.Eval(1)
	k := 2
	if c.Tier == "thorough" {
		k = 4
	}
	desc := map[string]interface{}{"setting": s.String(), "data": d.Desc, "data_sha": mon.Sha(d.B), "flushes": fmt.Sprint(flushes)}
	if fixedParts != nil {
		k = len(fixedParts)
	}
	for p := 0; p < k; p++ {
		style := []string{"random", "rollover", "zeros", "random"}[(p+i)%4]
		if n <= 20000 && r.Chance(1, 4) {
			style = "bytes"
		}
		ops := gen.Schedule(r, n, flushes, style)
		if fixedParts != nil {
			ops, style = fixedParts[p], "tail-fill"
		}
		got, err := emit(c.API, s, d.B, ops)
		c.Eval(1)
		if err != nil {
			c.Count("dropped:writer-error", 1)
			continue
		}
		if !bytes.Equal(got, ref) {
			desc["partition"] = gen.OpsString(ops)
			desc["style"] = style
			c.Violate(fmt.Sprintf("output-depends-on-write-sizes|%s|style=%s", s, style), fmt.Sprintf("%s, data %s, flushes %v: %d bytes with one Write per segment, %d bytes with partition [%s]; first difference at %d", s, d.Desc, flushes, len(ref), len(got), gen.OpsString(ops), firstDiff(got, ref)), desc)
			return
		}
		c.Count("partition-pairs-identical", 1)
		c.Count("style:"+style, 1)
		if n > 0 && len(ops) > len(flushes)+2 {
			c.Nontrivial(s.String(), d.B, fmt.Sprint(flushes), gen.OpsString(ops), len(ops))
		}
	}
	w := 32768
	if s.Win4K {
		w = 4096
	}
	if n >= 3*(2*w+258) {
		c.Count("inputs-over-3-rollovers", 1)
	}
	if i%89 == 0 {
		c.Sample(desc)
	}
}
