package props

import (
	"fmt"
	"io"

	"fgverif/gen"
	"fgverif/impl"
	"fgverif/mon"
)

// C16 — any call sequence is safe: Close is idempotent and nothing panics.
type c16 struct{}

func init() { register(c16{}) }

func (c16) ID() string            { return "C16" }
func (c16) EvidenceLevel() string { return "exploration" }
func (c16) Rule() string {
	return "case = (writer kind and level, a sequence over {Write(empty), Write(small), Write(2W+258+1 bytes), Flush, Close, Reset}) executed in lock step on fastgo's Writer and on the standard library's Writer of the same kind and level. Enumerated exhaustively up to length 4 (quick) / 5, and 6 for accelerated flate settings (thorough), plus seeded sequences of length 5..20. Per call: no panic, error-ness equal to the twin's; after the first nil Close of a stream no call emits more than the twin emits in that call; the bytes up to that Close are a complete valid stream of the data written (C01 oracle). Every fifth gzip/zlib case uses rarely used constructor inputs on both sides (empty non-nil Extra, 65535-byte Extra, over-long Extra of 65536 and 70000 bytes; an empty non-nil zlib dictionary). Case 0 compares constructor acceptance of levels -5..12. Non-trivial: the sequence contains a call after a Close, or a Reset after data; distinct by (setting, sequence)."
}

var c16Settings = []Setting{
	{Wrapper: "flate", Level: -2}, {Wrapper: "flate", Level: -1}, {Wrapper: "flate", Level: 0}, {Wrapper: "flate", Level: 1}, {Wrapper: "flate", Level: 2}, {Wrapper: "flate", Level: 6},
	{Wrapper: "flate", Level: -2, Win4K: true}, {Wrapper: "flate", Level: 1, Win4K: true}, {Wrapper: "flate", Level: 2, Win4K: true},
	{Wrapper: "gzip", Level: -2}, {Wrapper: "gzip", Level: 1}, {Wrapper: "gzip", Level: 6},
	{Wrapper: "zlib", Level: -2}, {Wrapper: "zlib", Level: 1}, {Wrapper: "zlib", Level: 6},
}

var c16Alphabet = []string{"W0", "Ws", "Wl", "F", "C", "R"}

// number of sequences of length 1..n over 6 letters
func c16Count(n int) int {
	t, p := 0, 1
	for k := 1; k <= n; k++ {
		p *= 6
		t += p
	}
	return t
}

// c16Seq decodes index idx (0-based) into the idx-th sequence in length-then-lexicographic order.
func c16Seq(idx int) []string {
	n, p := 1, 6
	for idx >= p {
		idx -= p
		p *= 6
		n++
	}
	seq := make([]string, n)
	for k := n - 1; k >= 0; k-- {
		seq[k] = c16Alphabet[idx%6]
		idx /= 6
	}
	return seq
}

type c16Layout struct {
	exh    int // sequences per setting (all settings)
	exhAcc int // extra (longer) sequences for accelerated flate settings
	random int
}

func c16Lay(tier string) c16Layout {
	if tier == "thorough" {
		return c16Layout{exh: c16Count(5), exhAcc: c16Count(6) - c16Count(5), random: 100000}
	}
	return c16Layout{exh: c16Count(4), exhAcc: 0, random: 3000}
}

var c16AccIdx = []int{0, 1, 3, 4, 6, 7, 8}

func (c16) NumCases(tier string) int {
	l := c16Lay(tier)
	return 1 + l.exh*len(c16Settings) + l.exhAcc*len(c16AccIdx) + l.random
}
func (c16) Exhaustive(tier string) bool { return true }
func (c16) ExhaustiveScope(tier string) string {
	if tier == "thorough" {
		return "every call sequence of length 1..5 over {Write(empty), Write(small), Write(large), Flush, Close, Reset} for each of the 15 settings, and of length 6 for the 7 accelerated flate settings, at every level run; longer sequences are seeded samples"
	}
	return "every call sequence of length 1..4 over {Write(empty), Write(small), Write(large), Flush, Close, Reset} (1554 sequences) for each of the 15 settings at every level run; longer sequences are seeded samples"
}
func (c16) Plan(tier string) []mon.RunSpec {
	return []mon.RunSpec{{Flavour: "plain"}, {Flavour: "checkptr", Every: 4}}
}
func (c16) CaseCPUBudget(string) float64 { return 300 }

func (c16) levels(c *mon.Ctx) {
	type ctor struct {
		name string
		fg   func(int) error
		sd   func(int) error
	}
	dict := []byte("dictionary")
	sink := &Sink{}
	cs := []ctor{
		{"flate.NewWriter", func(l int) error { _, e := c.API.NewFlateWriter(sink, l); return e }, func(l int) error { _, e := impl.Stdlib.NewFlateWriter(sink, l); return e }},
		{"flate.NewWriterDict", func(l int) error { _, e := c.API.NewFlateWriterDict(sink, l, dict); return e }, func(l int) error { _, e := impl.Stdlib.NewFlateWriterDict(sink, l, dict); return e }},
		{"gzip.NewWriterLevel", func(l int) error { _, e := c.API.NewGzipWriterLevel(sink, l); return e }, func(l int) error { _, e := impl.Stdlib.NewGzipWriterLevel(sink, l); return e }},
		{"zlib.NewWriterLevel", func(l int) error { _, e := c.API.NewZlibWriterLevel(sink, l); return e }, func(l int) error { _, e := impl.Stdlib.NewZlibWriterLevel(sink, l); return e }},
		{"zlib.NewWriterLevelDict", func(l int) error { _, e := c.API.NewZlibWriterLevelDict(sink, l, dict); return e }, func(l int) error { _, e := impl.Stdlib.NewZlibWriterLevelDict(sink, l, dict); return e }},
	}
	for _, ct := range cs {
		for l := -5; l <= 12; l++ {
			var fe, se error
			pv, st := mon.Safe(func() { fe = ct.fg(l) })
			se = ct.sd(l)
			c.Eval(1)
			if pv != nil {
				c.Violate("panic|constructor|"+ct.name, fmt.Sprintf("%s(level %d) panicked: %v", ct.name, l, pv), map[string]interface{}{"stack": st})
				return
			}
			if (fe == nil) != (se == nil) {
				c.Violate("constructor-level|"+ct.name, fmt.Sprintf("%s(level %d): fastgo error=%v, standard library error=%v", ct.name, l, fe, se), nil)
				return
			}
			c.Count("constructor-level-pairs-agreeing", 1)
		}
	}
}

func (p c16) Run(c *mon.Ctx, i int) {
	if i == 0 {
		p.levels(c)
		return
	}
	i--
	l := c16Lay(c.Tier)
	r := c.R
	var s Setting
	var seq []string
	exhaustive := true
	switch {
	case i < l.exh*len(c16Settings):
		s = c16Settings[i/l.exh]
		seq = c16Seq(i % l.exh)
	case i < l.exh*len(c16Settings)+l.exhAcc*len(c16AccIdx):
		k := i - l.exh*len(c16Settings)
		s = c16Settings[c16AccIdx[k/l.exhAcc]]
		seq = c16Seq(c16Count(5) + k%l.exhAcc)
	default:
		exhaustive = false
		s = c16Settings[r.Intn(len(c16Settings))]
		n := r.Range(5, 8)
		if c.Tier == "thorough" {
			n = r.Range(7, 20)
		}
		for k := 0; k < n; k++ {
			seq = append(seq, c16Alphabet[r.Intn(6)])
		}
	}
	// rarely used constructor inputs, mirrored on the twin: gzip header fields
	// (an empty non-nil Extra, the longest legal Extra, an over-long one that
	// every call must report) and an empty non-nil zlib dictionary
	if i%5 == 3 {
		switch s.Wrapper {
		case "gzip":
			switch (i / 5) % 4 {
			case 0:
				s.Hdr = &impl.Header{Extra: []byte{}}
			case 1:
				s.Hdr = &impl.Header{Extra: make([]byte, 65535), Name: "n"}
			case 2:
				s.Hdr = &impl.Header{Extra: make([]byte, 65536)}
			default:
				s.Hdr = &impl.Header{Extra: make([]byte, 70000), Name: "name", Comment: "comment"}
			}
			c.Count("gzip-header-variants", 1)
		case "zlib":
			s.Dict = []byte{}
			c.Count("zlib-empty-non-nil-dictionary", 1)
		}
	}
	W := 32768
	if s.Win4K {
		W = 4096
	}
	// "large": one byte past the input buffer's roll-over by default; exactly on
	// it, one short of it, or exactly one/two 64 KiB Huffman-only blocks in a
	// quarter of the cases (sizes and contents are parameters of the letter Wl,
	// the enumeration of sequences is unchanged)
	lsize := 2*W + 258 + 1
	lfam := "text"
	if r.Chance(1, 4) {
		lsize = r.Pick(2*W+258, 2*W+258-1, 65536, 131072)
		lfam = []string{"text", "alpha4", "alpha16", "geom"}[r.Intn(4)]
	}
	large := gen.Make(r, lfam, lsize).B
	small := gen.Make(r, "alpha4", r.Range(1, 40)).B

	fs, ss := &Sink{}, &Sink{}
	// destinations are handed over as pointers, or (a third of the cases) as
	// values of a struct type that is not comparable, like a func-typed adapter
	byValue := i%3 == 2
	dst := func(k *Sink) io.Writer {
		if byValue {
			return valSink{s: k}
		}
		return k
	}
	var fw, sw impl.Writer
	var ferr, serr error
	twin := s
	twin.Win4K = false
	zeroValue := (s.Wrapper == "gzip" || s.Wrapper == "zlib") && s.Level == 6 && i%4 == 1
	if zeroValue {
		// var z gzip.Writer / zlib.Writer; z.Reset(dst): legal in the standard library
		if s.Wrapper == "gzip" {
			fw, sw = c.API.ZeroGzipWriter(), impl.Stdlib.ZeroGzipWriter()
		} else {
			fw, sw = c.API.ZeroZlibWriter(), impl.Stdlib.ZeroZlibWriter()
		}
		if pv, st := mon.Safe(func() { fw.Reset(dst(fs)) }); pv != nil {
			c.Violate("panic|zero-value-reset|"+s.Wrapper, fmt.Sprintf("Reset on a zero-value %s Writer panicked: %v", s.Wrapper, pv), map[string]interface{}{"stack": st})
			return
		}
		sw.Reset(ss)
	} else {
		fw, ferr = NewWriter(c.API, s, dst(fs))
		sw, serr = NewWriter(impl.Stdlib, twin, ss)
	}
	if ferr != nil || serr != nil {
		return
	}
	g, _ := fw.(impl.Guarded)
	if g != nil {
		g.InstallGuards()
		defer g.DropGuards()
	}
	seqStr := fmt.Sprint(seq)
	desc := map[string]interface{}{"setting": s.String(), "sequence": seqStr, "large_write": fmt.Sprintf("%s/%d", lfam, lsize), "destination_by_value": byValue, "zero_value_writer": zeroValue}
	var written []byte // data accepted in the current stream before its first nil Close
	closedAt := -1     // emitted length of fs at the first nil Close of the current stream
	sawAfterClose, sawResetAfterData := false, false
	for k, op := range seq {
		var fe, se error
		fb, sb := fs.Buf.Len(), ss.Buf.Len()
		var data []byte
		pv, st := mon.Safe(func() {
			switch op {
			case "W0":
				data = []byte{}
				_, fe = fw.Write(data)
			case "Ws":
				data = small
				_, fe = fw.Write(data)
			case "Wl":
				data = large
				_, fe = fw.Write(data)
			case "F":
				fe = fw.Flush()
			case "C":
				fe = fw.Close()
			case "R":
				fs = &Sink{}
				fw.Reset(dst(fs))
			}
		})
		switch op {
		case "W0", "Ws", "Wl":
			_, se = sw.Write(data)
		case "F":
			se = sw.Flush()
		case "C":
			se = sw.Close()
		case "R":
			ss = &Sink{}
			sw.Reset(ss)
		}
		c.Eval(1)
		where := fmt.Sprintf("%s|huffonly=%v|op=%s|after-close=%v", s.Wrapper, s.Level == -2 && s.Accelerated(), op, closedAt >= 0)
		if !s.Accelerated() {
			where += "|delegated"
		}
		desc["failing_op_index"] = k
		if pv != nil {
			desc["stack"] = st
			c.Violate("panic|"+where, fmt.Sprintf("%s: call %d (%s) of %s panicked: %v", s, k, op, seqStr, pv), desc)
			return
		}
		if g != nil {
			g.InstallGuards()
			if e := g.CheckGuards(); e != nil {
				c.Violate("redzone|"+where, e.Error(), desc)
				return
			}
		}
		if op == "R" {
			if len(written) > 0 {
				sawResetAfterData = true
			}
			written, closedAt = nil, -1
			continue
		}
		if (fe == nil) != (se == nil) {
			c.Violate("error-differs|"+where, fmt.Sprintf("%s: call %d (%s) of %s: fastgo error=%v, standard library error=%v", s, k, op, seqStr, fe, se), desc)
			return
		}
		fd, sd := fs.Buf.Len()-fb, ss.Buf.Len()-sb
		if closedAt >= 0 {
			sawAfterClose = true
			if fd > sd {
				c.Violate("emits-after-close|"+where, fmt.Sprintf("%s: call %d (%s) of %s comes after a successful Close and emitted %d bytes (standard library: %d)", s, k, op, seqStr, fd, sd), desc)
				return
			}
			continue
		}
		if fe == nil && data != nil {
			written = append(written, data...)
		}
		if op == "C" && fe == nil {
			closedAt = fs.Buf.Len()
			raw, ok := fs.Buf.Bytes(), true
			switch s.Wrapper {
			case "gzip":
				raw, ok = gzipDeflatePart(raw)
			case "zlib":
				raw, ok = zlibDeflatePart(raw)
			}
			if !ok {
				c.Violate("stream-at-close|container-too-short|"+s.Wrapper, fmt.Sprintf("%s: %s: container of %d bytes at Close", s, seqStr, fs.Buf.Len()), desc)
				return
			}
			if sig, what, _ := DecodeChecks(c.API, raw, written, nil); sig != "" {
				c.Violate("stream-at-close|"+sig+"|"+where, fmt.Sprintf("%s: %s: bytes emitted up to the Close at call %d: %s", s, seqStr, k, what), desc)
				return
			}
			c.Count("streams-valid-at-first-close", 1)
		}
	}
	c.Count("sequences-agreeing", 1)
	c.Count(fmt.Sprintf("length-%02d", len(seq)), 1)
	if exhaustive {
		c.Count("enumerated", 1)
	} else {
		c.Count("seeded", 1)
	}
	if sawAfterClose {
		c.Count("sequences-with-calls-after-close", 1)
	}
	if sawAfterClose || sawResetAfterData {
		c.Nontrivial(s.String(), seqStr)
	}
	if i%2503 == 0 {
		c.Sample(desc)
	}
}

// valSink is a destination passed by value whose type is not comparable
// (slice field): interface values holding it cannot be compared with ==.
type valSink struct {
	s   *Sink
	pad []int
}

func (v valSink) Write(p []byte) (int, error) { return v.s.Write(p) }
