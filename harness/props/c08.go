package props

import (
	"bytes"
	"fmt"
	"io"

	"fgverif/gen"
	"fgverif/impl"
	"fgverif/mon"
)

// C08 — concatenated gzip members read as one stream, or member by member.
type c08 struct{}

func init() { register(c08{}) }

func (c08) ID() string            { return "C08" }
func (c08) EvidenceLevel() string { return "exploration" }
func (c08) Rule() string {
	return "case = 1..6 gzip members written back to back, each by fastgo or the standard library at a random level with its own header, payloads incl. empty and > 64 KiB; optional trailing non-gzip data (1 byte, 100 bytes); destination sizes as in C02; *bufio.Reader source of 64, 4096 or 65536 bytes. Default mode: the Reader must return the concatenation of the payloads, then io.EOF (when no trailing data), with the first member's header. Multistream(false)+Reset on the same source: each member's payload and header separately and in order (the Header values kept by the caller are compared once more after the last member); Reset after the last member returns io.EOF when nothing follows; trailing data are still in the source, untouched, after the last member's io.EOF. Non-trivial: at least two members; distinct by (sequence digest, mode, source)."
}
func (c08) NumCases(tier string) int {
	if tier == "thorough" {
		return 40000
	}
	return 1200
}

func (c08) Run(c *mon.Ctx, i int) {
	r := c.R
	n := r.Range(1, 6)
	var all []byte
	var payloads [][]byte
	var headers []impl.Header
	for m := 0; m < n; m++ {
		var d gen.Data
		switch r.Intn(5) {
		case 0:
			d = gen.Data{Desc: "empty"}
		case 1:
			d = gen.RandomData(r, 200000)
		default:
			d = gen.RandomData(r, 5000)
		}
		lvl := allLevels[r.Intn(len(allLevels))]
		edge := false
		if r.Chance(1, 6) {
			// payloads ending right at / just past the inflater's 64 KiB window, small
			// alphabets (short codes), written by fastgo's own compressor whose last
			// block is a dynamic one
			d = gen.Make(r, []string{"alpha2", "alpha4", "equal", "text"}[r.Intn(4)], 65536+32768*r.Pick(0, 0, 1)+r.Range(0, 3))
			lvl = accelLevels[r.Intn(4)]
			edge = true
		}
		h := randHeader(r)
		if len(h.Extra) > 2000 {
			h.Extra = h.Extra[:2000]
		}
		api := impl.Stdlib
		if r.Bool() || edge {
			api = c.API
		}
		var b bytes.Buffer
		w, _ := api.NewGzipWriterLevel(&b, lvl)
		w.SetHeader(h)
		w.Write(d.B)
		w.Close()
		all = append(all, b.Bytes()...)
		payloads = append(payloads, d.B)
		headers = append(headers, h)
	}
	var T []byte
	switch r.Intn(3) {
	case 1:
		T = []byte{byte(r.Range(0x20, 0x7e))}
	case 2:
		T = r.Bytes(100)
		T[0] = 0x55
	}
	concat := bytes.Join(payloads, nil)
	desc := map[string]interface{}{"members": n, "total_len": len(all), "sha": mon.Sha(all), "trailing": len(T), "payload_lens": fmt.Sprint(lens(payloads))}
	bsz := r.Pick(64, 4096, 65536)
	style := gen.ReadStyles[2+r.Intn(5)]
	desc["bufio"], desc["read_style"] = bsz, style

	// default (multistream) mode: only without trailing garbage the end is clean
	{
		src := bufioOf(bytes.NewReader(all), bsz)
		var got []byte
		var err error
		var h0 impl.Header
		pv, st := mon.Safe(func() {
			z, e := c.API.NewGzipReader(src)
			if e != nil {
				err = e
				return
			}
			h0 = z.Header()
			got, err, _ = readAllSizes(z, gen.ReadSizes(r, style), len(concat)+1<<20)
		})
		c.Eval(1)
		if pv != nil {
			desc["stack"] = st
			c.Violate("panic|default-mode", fmt.Sprint(pv), desc)
			return
		}
		if err != io.EOF || !bytes.Equal(got, concat) {
			c.Violate("default-mode|concatenation|"+errKind(err), fmt.Sprintf("%d members: default mode returned %d bytes then %v; the concatenated payloads are %d bytes (first difference %d)", n, len(got), err, len(concat), firstDiff(got, concat)), desc)
			return
		}
		if f := hdrEqual(headers[0], h0); f != "" {
			c.Violate("default-mode|header|"+f[:2], "Header is not the first member's: "+f, desc)
			return
		}
		c.Count("default-mode-sequences-held", 1)
	}
	// member-by-member
	{
		whole := append(append([]byte(nil), all...), T...)
		src := bufioOf(bytes.NewReader(whole), bsz)
		var problem, sig string
		pv, st := mon.Safe(func() {
			z, e := c.API.NewGzipReader(src)
			if e != nil {
				problem, sig = fmt.Sprintf("NewReader: %v", e), "member-mode|constructor"
				return
			}
			// the caller keeps every member's Header value (a struct copy, as a
			// listing tool does) and looks at all of them again at the end
			var kept []impl.Header
			defer func() {
				if problem != "" {
					return
				}
				for m, h := range kept {
					if f := hdrEqual(headers[m], h); f != "" {
						problem, sig = fmt.Sprintf("member %d of %d: header field %s of the Header value kept by the caller changed while later members were read", m, n, f), "member-mode|kept-header|"+f[:2]
						return
					}
				}
			}()
			for m := 0; m < n; m++ {
				z.Multistream(false)
				if f := hdrEqual(headers[m], z.Header()); f != "" {
					problem, sig = fmt.Sprintf("member %d of %d: header field %s differs", m, n, f), "member-mode|header|"+f[:2]
					return
				}
				kept = append(kept, z.Header())
				got, err, _ := readAllSizes(z, gen.ReadSizes(r, style), len(payloads[m])+1<<20)
				if err != io.EOF || !bytes.Equal(got, payloads[m]) {
					problem, sig = fmt.Sprintf("member %d of %d: %d bytes then %v; payload is %d bytes (first difference %d)", m, n, len(got), err, len(payloads[m]), firstDiff(got, payloads[m])), "member-mode|payload|"+errKind(err)
					return
				}
				if m == n-1 {
					break
				}
				if e := z.Reset(src); e != nil {
					problem, sig = fmt.Sprintf("Reset before member %d of %d: %v", m+1, n, e), "member-mode|reset|"+errKind(e)
					return
				}
			}
			if len(T) == 0 {
				if e := z.Reset(src); e != io.EOF {
					problem, sig = fmt.Sprintf("Reset after the last member with nothing following returned %v, not io.EOF", e), "member-mode|reset-at-end|"+errKind(e)
				}
				return
			}
			rest, _ := io.ReadAll(src)
			if !bytes.Equal(rest, T) {
				problem, sig = fmt.Sprintf("after the last member's io.EOF the source holds %d bytes; the %d trailing bytes were expected untouched", len(rest), len(T)), "member-mode|trailing-data"
			}
		})
		c.Eval(1)
		if pv != nil {
			desc["stack"] = st
			c.Violate("panic|member-mode", fmt.Sprint(pv), desc)
			return
		}
		if problem != "" {
			c.Violate(sig+fmt.Sprintf("|bufio=%s", bufClass(bsz)), problem, desc)
			return
		}
		c.Count("member-mode-sequences-held", 1)
		if len(T) > 0 {
			c.Count("trailing-data-left-untouched", 1)
		}
	}
	// Reset in the middle of the file must restore the default (multistream) mode:
	// first member alone, then Reset on the same source, then the rest as one stream
	if n >= 2 && len(T) == 0 {
		src := bufioOf(bytes.NewReader(all), bsz)
		var problem string
		pv, st := mon.Safe(func() {
			z, e := c.API.NewGzipReader(src)
			if e != nil {
				problem = fmt.Sprintf("NewReader: %v", e)
				return
			}
			z.Multistream(false)
			got, err, _ := readAllSizes(z, gen.ReadSizes(r, style), len(payloads[0])+1<<20)
			if err != io.EOF || !bytes.Equal(got, payloads[0]) {
				problem = fmt.Sprintf("first member: %d bytes then %v", len(got), err)
				return
			}
			if e := z.Reset(src); e != nil {
				problem = fmt.Sprintf("Reset before member 1: %v", e)
				return
			}
			rest := bytes.Join(payloads[1:], nil)
			got, err, _ = readAllSizes(z, gen.ReadSizes(r, style), len(rest)+1<<20)
			if err != io.EOF || !bytes.Equal(got, rest) {
				problem = fmt.Sprintf("after Multistream(false), one member and Reset on the same source, the Reader returned %d bytes then %v; the remaining %d members hold %d bytes (a freshly Reset Reader is in multistream mode)", len(got), err, n-1, len(rest))
			}
		})
		c.Eval(1)
		if pv != nil {
			desc["stack"] = st
			c.Violate("panic|reset-to-default", fmt.Sprint(pv), desc)
			return
		}
		if problem != "" {
			c.Violate("reset-does-not-restore-multistream|bufio="+bufClass(bsz), problem, desc)
			return
		}
		c.Count("reset-restores-default-mode", 1)
	}
	c.Count(fmt.Sprintf("members-%d", n), 1)
	if n >= 2 {
		c.Nontrivial(all, T, bsz, style)
	}
	if i%97 == 0 {
		c.Sample(desc)
	}
}

func lens(p [][]byte) []int {
	var l []int
	for _, b := range p {
		l = append(l, len(b))
	}
	return l
}
