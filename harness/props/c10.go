package props

import (
	"bytes"
	"fmt"
	"io"

	sflate "compress/flate"
	sgzip "compress/gzip"
	szlib "compress/zlib"

	"fgverif/gen"
	"fgverif/impl"
	"fgverif/mon"
	"fgverif/refinf"
)

// C10 — after Flush, all data written so far decodes from the bytes emitted
// so far.
type c10 struct{}

func init() { register(c10{}) }

func (c10) ID() string            { return "C10" }
func (c10) EvidenceLevel() string { return "exploration" }
func (c10) Rule() string {
	return "case = (flate/gzip/zlib, level -2..9, 32K/4K window, a Write/Flush history: Flush first, twice, with nothing pending after data, after every byte of small inputs, exactly at buffer roll-overs, Huffman-only blocks of 0..3 bytes). At every Flush that returns nil the bytes emitted so far are given to the strict reference inflater (must be: need-more-input, output == all data written so far, no block marked final), to compress/flate|gzip|zlib (data so far then io.ErrUnexpectedEOF) and to fastgo's own Reader (likewise); at Close the whole stream must pass the C01 oracle. Non-trivial: a Flush point with at least one byte written before it; distinct by (setting, data digest, flush position). Case 0 (levels 0, 3, 4): Write(1000 bytes), Flush, exactly 2^32 zero bytes, Flush through gzip and zlib; compress/flate must decode 2^32+1000 bytes from what was emitted."
}
func (c10) NumCases(tier string) int {
	if tier == "thorough" {
		return 60000
	}
	return 2500
}

func deflateOffset(wrapper string) int {
	switch wrapper {
	case "gzip":
		return 10
	case "zlib":
		return 2
	}
	return 0
}

// countWriter counts what is written to it.
type countWriter struct{ n int64 }

func (w *countWriter) Write(p []byte) (int, error) { w.n += int64(len(p)); return len(p), nil }

// huge: exactly 2^32 bytes between two Flushes (the byte counters of the
// containers are 32 bits wide): the bytes emitted up to the second Flush must
// decode to everything written.
func (c10) huge(c *mon.Ctx, wrapper string) {
	var out bytes.Buffer
	w, err := NewWriter(c.API, Setting{Wrapper: wrapper, Level: 1}, &out)
	if err != nil {
		return
	}
	first := c.R.Bytes(1000)
	zeros := make([]byte, 1<<20)
	var werr error
	w.Write(first)
	if werr = w.Flush(); werr == nil {
		for k := 0; k < 4096 && werr == nil; k++ {
			_, werr = w.Write(zeros)
		}
		if werr == nil {
			werr = w.Flush()
		}
	}
	if werr != nil {
		c.Count("dropped:writer-error", 1)
		return
	}
	c.Eval(1)
	want := int64(1000) + 1<<32
	body := out.Bytes()
	if wrapper == "gzip" {
		body = body[10:]
	} else {
		body = body[2:]
	}
	cw := &countWriter{}
	_, derr := io.Copy(cw, sflate.NewReader(bytes.NewReader(body)))
	desc := map[string]interface{}{"wrapper": wrapper, "written": want, "decodable_from_emitted_bytes": cw.n, "emitted": out.Len(), "decoder_end": fmt.Sprint(derr)}
	if cw.n != want {
		c.Violate("prefix-incomplete|"+wrapper+"|2^32-bytes-between-flushes", fmt.Sprintf("%s: Write(1000), Flush, 2^32 bytes, Flush: all calls returned nil, but the bytes emitted so far decode to %d of the %d bytes written", wrapper, cw.n, want), desc)
		return
	}
	c.Count("2^32-bytes-between-flushes:"+wrapper, 1)
	c.Nontrivial("huge", wrapper)
}

func (p c10) Run(c *mon.Ctx, i int) {
	if i == 0 && (c.Level == 0 || c.Level >= 3) {
		p.huge(c, "gzip")
		if c.Level == 4 || c.Level == 0 {
			p.huge(c, "zlib")
		}
		return
	}
	r := c.R
	s := Setting{Wrapper: []string{"flate", "flate", "gzip", "zlib"}[i%4]}
	if r.Chance(3, 4) {
		s.Level = accelLevels[r.Intn(4)]
	} else {
		s.Level = allLevels[r.Intn(len(allLevels))]
	}
	if s.Wrapper == "flate" {
		s.Win4K = r.Chance(1, 3)
	}
	var d gen.Data
	var ops []gen.Op
	switch sel := i % 6; {
	case i%12 == 5:
		// skewed data ending in three unique symbols (longest codes), flushed
		d = gen.Data{Desc: "halving-frequencies+3 unique symbols", B: halvingData(r, r.Range(13, 15), (i/12)%48)}
		tail := gen.Make(r, "text", 200).B
		n0 := len(d.B)
		d.B = append(d.B, tail...)
		ops = []gen.Op{{Kind: "write", N: n0}, {Kind: "flush"}, {Kind: "write", N: len(tail)}, {Kind: "close"}}
	case i%12 == 11:
		// R one-token bytes (plus a short run), then Flush: the number of tokens
		// pending at the Flush sweeps across the token buffer's capacity (32767)
		caps := []int{}
		for v := 32740; v <= 32775; v++ {
			caps = append(caps, v)
		}
		for v := 65500; v <= 65545; v++ {
			caps = append(caps, v)
		}
		R := caps[(i/12)%len(caps)]
		if s.Level == -2 || !s.Accelerated() {
			s.Level = []int{1, 2, -1}[r.Intn(3)]
		}
		b := r.Bytes(R)
		z := r.Pick(0, 0, 271, 300, 65794-R)
		if z < 0 {
			z = 0
		}
		b = append(b, make([]byte, z)...)
		tail := gen.Make(r, "text", 300).B
		d = gen.Data{Desc: fmt.Sprintf("uniform%d+zeros%d", R, z), B: append(b, tail...)}
		ops = []gen.Op{{Kind: "write", N: len(b)}, {Kind: "flush"}, {Kind: "write", N: len(tail)}, {Kind: "close"}}
	case sel == 0:
		// flush after every byte of a small input
		d = gen.Make(r, gen.Families[r.Intn(8)], r.Range(0, 40))
		for k := 0; k < len(d.B); k++ {
			ops = append(ops, gen.Op{Kind: "write", N: 1}, gen.Op{Kind: "flush"})
		}
		ops = append(ops, gen.Op{Kind: "close"})
	case sel == 1:
		// flush first, doubled, and with nothing pending
		d = gen.Make(r, gen.Families[r.Intn(8)], r.Pick(0, 1, 2, 3, 100, 70000))
		ops = []gen.Op{{Kind: "flush"}, {Kind: "flush"}, {Kind: "write", N: len(d.B)}, {Kind: "flush"}, {Kind: "flush"}, {Kind: "write", N: 0}, {Kind: "flush"}, {Kind: "close"}}
	case sel == 2:
		// flush exactly at roll-overs
		w := 32768
		if s.Win4K {
			w = 4096
		}
		ro := 2*w + 258
		if s.Level == -2 {
			ro = 65536
		}
		// the input buffer is full at ro, then again every (W+258) bytes (the
		// Huffman-only block every 64 KiB): flush on, just before and just after
		// two such points, k cycles apart
		cyc := w + 258
		if s.Level == -2 {
			cyc = 65536
		}
		a := ro + r.Pick(0, 0, 1)*cyc + r.Pick(0, 0, 0, -1, 1, -2, 2)
		b := a + r.Pick(1, 1, 2, 3)*cyc
		if r.Chance(1, 3) {
			b += r.Pick(-1, 1)
		}
		n := b + r.Range(0, 500)
		d = gen.Make(r, gen.Families[r.Intn(len(gen.Families))], n)
		ops = []gen.Op{{Kind: "write", N: a}, {Kind: "flush"}, {Kind: "write", N: b - a}, {Kind: "flush"}, {Kind: "write", N: n - b}, {Kind: "close"}}
	default:
		d = gen.RandomData(r, 200000)
		var fl []int
		for k := r.Range(1, 6); k > 0; k-- {
			fl = append(fl, r.Intn(len(d.B)+1))
		}
		for a := 1; a < len(fl); a++ {
			for b := a; b > 0 && fl[b] < fl[b-1]; b-- {
				fl[b], fl[b-1] = fl[b-1], fl[b]
			}
		}
		ops = gen.Schedule(r, len(d.B), fl, gen.PartitionStyles[r.Intn(4)])
	}
	sink := &Sink{}
	w, err := NewWriter(c.API, s, sink)
	if err != nil {
		return
	}
	desc := map[string]interface{}{"setting": s.String(), "data": d.Desc, "data_sha": mon.Sha(d.B), "ops": gen.OpsString(ops)}
	if len(d.B) <= 2048 {
		desc["data_hex"] = mon.Hex(d.B, 2048)
	}
	pos := 0
	off := deflateOffset(s.Wrapper)
	for k, o := range ops {
		var err error
		switch o.Kind {
		case "write":
			_, err = w.Write(d.B[pos : pos+o.N])
			pos += o.N
		case "flush":
			err = w.Flush()
		case "close":
			err = w.Close()
		}
		if err != nil {
			c.Count("op-error-on-good-destination", 1)
			return
		}
		if o.Kind != "flush" {
			continue
		}
		c.Eval(1)
		P := sink.Buf.Bytes()
		sofar := d.B[:pos]
		where := fmt.Sprintf("%s|huffonly=%v|pending=%v", s.Wrapper, s.Level == -2, k > 0 && ops[k-1].Kind == "write" && ops[k-1].N > 0)
		fail := func(sig, what string) {
			desc["flush_op_index"] = k
			desc["written_before_flush"] = pos
			desc["emitted_so_far"] = len(P)
			if len(P) <= 1024 {
				desc["emitted_hex"] = mon.Hex(P, 1024)
			}
			c.Violate(sig+"|"+where, fmt.Sprintf("%s, data %s, ops [%s], Flush at op %d after %d bytes: %s", s, d.Desc, gen.OpsString(ops), k, pos, what), desc)
		}
		if len(P) < off {
			fail("header-missing", fmt.Sprintf("only %d bytes emitted", len(P)))
			return
		}
		// (1) strict reference on the raw DEFLATE part
		res := refinf.Inflate(P[off:], refinf.Options{Strict: true, MaxOut: len(sofar) + 1024})
		switch {
		case res.Status == refinf.Corrupt:
			fail("prefix-corrupt", "reference inflater: "+res.String())
			return
		case res.Status == refinf.Complete || res.SawFinal:
			fail("prefix-marked-final", "reference inflater: a block before the Flush point is marked final: "+res.String())
			return
		case !bytes.Equal(res.Out, sofar):
			fail("prefix-misses-data", fmt.Sprintf("reference inflater decodes %d of the %d bytes written before the Flush (first difference at %d)", len(res.Out), len(sofar), firstDiff(res.Out, sofar)))
			return
		}
		if res.AtBoundary {
			c.Count("flush-ends-at-block-boundary", 1)
		}
		if len(P) >= 4 && bytes.Equal(P[len(P)-4:], []byte{0, 0, 0xff, 0xff}) {
			c.Count("flush-ends-with-0000ffff", 1)
		}
		if nb := len(res.Blocks); nb >= 2 {
			// bit position at which the sync marker's block header starts
			c.Count(fmt.Sprintf("marker-starts-at-bit%d", res.Blocks[nb-1].BitOff&7), 1)
		}
		// (2) standard library reader of the same container kind
		var sr io.Reader
		var e error
		switch s.Wrapper {
		case "flate":
			sr = io.NopCloser(nil)
			got, e2 := stdlibInflate(P, nil)
			if e2 != io.ErrUnexpectedEOF || !bytes.Equal(got, sofar) {
				fail("stdlib-prefix", fmt.Sprintf("compress/flate on the prefix: %d bytes then %v; expected %d bytes then unexpected EOF", len(got), e2, len(sofar)))
				return
			}
			sr = nil
		case "gzip":
			sr, e = sgzip.NewReader(bytes.NewReader(P))
		case "zlib":
			sr, e = szlib.NewReader(bytes.NewReader(P))
		}
		if sr != nil || e != nil {
			var got []byte
			if e == nil {
				got, e = io.ReadAll(sr)
			}
			if e != io.ErrUnexpectedEOF || !bytes.Equal(got, sofar) {
				fail("stdlib-prefix", fmt.Sprintf("compress/%s on the prefix: %d bytes then %v; expected %d bytes then unexpected EOF", s.Wrapper, len(got), e, len(sofar)))
				return
			}
		}
		// (3) fastgo's own reader
		var got []byte
		var fe error
		pv, st := mon.Safe(func() {
			var fr io.Reader
			switch s.Wrapper {
			case "flate":
				fr = c.API.NewFlateReader(bytes.NewReader(P))
			case "gzip":
				fr, fe = c.API.NewGzipReader(bytes.NewReader(P))
			case "zlib":
				fr, fe = c.API.NewZlibReader(bytes.NewReader(P))
			}
			if fe == nil {
				got, fe = io.ReadAll(fr)
			}
		})
		if pv != nil {
			desc["stack"] = st
			fail("own-reader-panic", fmt.Sprint(pv))
			return
		}
		if fe != io.ErrUnexpectedEOF || !bytes.Equal(got, sofar) {
			fail("own-reader-prefix", fmt.Sprintf("fastgo %s Reader on the prefix: %d bytes then %v; expected %d bytes then unexpected EOF", s.Wrapper, len(got), fe, len(sofar)))
			return
		}
		c.Count("flush-points-held", 1)
		if pos > 0 {
			c.Nontrivial(s.String(), d.B, pos, k)
		}
	}
	// (4) whole stream
	all := sink.Buf.Bytes()
	var raw []byte
	ok := true
	switch s.Wrapper {
	case "gzip":
		raw, ok = gzipDeflatePart(all)
	case "zlib":
		raw, ok = zlibDeflatePart(all)
	default:
		raw = all
	}
	if !ok {
		c.Violate("container-malformed|"+s.Wrapper, fmt.Sprintf("%s: container of %d bytes has no room for header and trailer", s, len(all)), desc)
		return
	}
	if sig, what, _ := DecodeChecks(c.API, raw, d.B, nil); sig != "" {
		c.Violate("whole-stream|"+sig+"|"+s.Wrapper, fmt.Sprintf("%s, data %s, ops [%s]: %s", s, d.Desc, gen.OpsString(ops), what), desc)
		return
	}
	c.Count("streams-closed-valid", 1)
	c.Count("wrapper:"+s.Wrapper, 1)
	if s.Level == -2 {
		c.Count("huffman-only-histories", 1)
	}
	if i%149 == 0 {
		c.Sample(desc)
	}
}

var _ = impl.ErrClass
