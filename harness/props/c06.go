package props

import (
	"bytes"
	"fmt"
	"hash/adler32"
	"hash/crc32"
	"io"
	"time"

	"fgverif/gen"
	"fgverif/impl"
	"fgverif/mon"
)

// C06 — gzip and zlib containers round-trip and interoperate with the
// standard library.
type c06 struct{}

func init() { register(c06{}) }

func (c06) ID() string            { return "C06" }
func (c06) EvidenceLevel() string { return "exploration" }
func (c06) Rule() string {
	return "case = (gzip or zlib, payload incl. empty and > 64 KiB, level -2..9, gzip header fields random within RFC 1952 limits (Latin-1 name/comment up to 511 bytes, Extra 0..65535, mtime 0/1/2^32-1/random, OS 0..255) or zlib dictionary none/short/32 KiB, Write/Flush partition, optionally as the second stream of a Writer reused through Reset). The container is written by fastgo and read by the standard library, and written by the standard library and read by fastgo: payload and header fields must come back equal; the last 8 / 4 bytes of fastgo's container must be CRC-32 and length mod 2^32 (little-endian) / Adler-32 (big-endian) computed by the harness; unrepresentable headers must be rejected by both writers alike. Non-trivial: non-empty payload; distinct by (kind, direction, payload digest, header digest)."
}
func (c06) NumCases(tier string) int {
	if tier == "thorough" {
		return 30000
	}
	return 1500
}

func latin1(r *gen.Rand, n int) string {
	rs := make([]rune, n)
	for i := range rs {
		for {
			v := rune(r.Range(1, 255))
			rs[i] = v
			break
		}
	}
	return string(rs)
}

// edge strings for Name/Comment: the boundaries of the Latin-1 conversion
var latin1Edges = []string{"\u0080", "a\u0080b", "\u0080\u0080", "\u007f", "\u0081", "\u00ff", "x\u00ffy", "\u007f\u0080", "plain-ascii"}

func randHeader(r *gen.Rand) impl.Header {
	h := impl.Header{OS: byte(r.Intn(256))}
	if r.Bool() {
		h.Name = latin1(r, r.Pick(1, 5, 30, 511))
		if r.Chance(1, 3) {
			h.Name = latin1Edges[r.Intn(len(latin1Edges))]
		}
	}
	if r.Bool() {
		h.Comment = latin1(r, r.Pick(1, 20, 200, 511))
		if r.Chance(1, 3) {
			h.Comment = latin1Edges[r.Intn(len(latin1Edges))]
		}
	}
	if r.Bool() {
		h.Extra = r.Bytes(r.Pick(0, 1, 10, 300, 65535))
	}
	switch r.Intn(4) {
	case 0:
	case 1:
		h.ModTime = time.Unix(1, 0)
	case 2:
		h.ModTime = time.Unix(1<<32-1, 0)
	default:
		h.ModTime = time.Unix(int64(r.Intn(1<<31)), 0)
	}
	return h
}

func hdrEqual(a, b impl.Header) string {
	switch {
	case a.Name != b.Name:
		return "Name"
	case a.Comment != b.Comment:
		return "Comment"
	case !bytes.Equal(a.Extra, b.Extra) && (len(a.Extra) != 0 || len(b.Extra) != 0):
		return "Extra"
	case a.OS != b.OS:
		return "OS"
	case !a.ModTime.Equal(b.ModTime):
		return fmt.Sprintf("ModTime(%v vs %v)", a.ModTime, b.ModTime)
	}
	return ""
}

// zeroReader yields n zero bytes.
type zeroReader struct{ left int64 }

func (z *zeroReader) Read(p []byte) (int, error) {
	if z.left == 0 {
		return 0, io.EOF
	}
	n := int64(len(p))
	if n > z.left {
		n = z.left
	}
	for i := int64(0); i < n; i++ {
		p[i] = 0
	}
	z.left -= n
	return int(n), nil
}

// countZeros drains rd, requiring zero bytes only.
func countZeros(rd io.Reader) (int64, error) {
	buf := make([]byte, 1<<20)
	var total int64
	for {
		n, err := rd.Read(buf)
		for _, b := range buf[:n] {
			if b != 0 {
				return total, fmt.Errorf("non-zero byte in the payload near offset %d", total)
			}
		}
		total += int64(n)
		if err == io.EOF {
			return total, nil
		}
		if err != nil {
			return total, err
		}
	}
}

// huge: a payload of 4 GiB + 5 zero bytes, both directions: the length field is
// the length mod 2^32 when written and must be compared mod 2^32 when read.
func (c06) huge(c *mon.Ctx) {
	const total = int64(4)<<30 + 5
	want := func() []byte {
		crc := uint32(0)
		chunk := make([]byte, 1<<20)
		for left := total; left > 0; {
			n := int64(len(chunk))
			if n > left {
				n = left
			}
			crc = crc32.Update(crc, crc32.IEEETable, chunk[:n])
			left -= n
		}
		return append(le32(crc), le32(uint32(total&0xffffffff))...)
	}()
	for _, dir := range []string{"fastgo->stdlib", "stdlib->fastgo"} {
		wa, ra := c.API, impl.Stdlib
		if dir == "stdlib->fastgo" {
			wa, ra = impl.Stdlib, c.API
		}
		var cont bytes.Buffer
		w, err := wa.NewGzipWriterLevel(&cont, 1)
		if err != nil {
			return
		}
		if _, err := io.Copy(w, &zeroReader{left: total}); err != nil {
			c.Violate("huge|write-error|"+dir, err.Error(), nil)
			return
		}
		if err := w.Close(); err != nil {
			c.Violate("huge|close-error|"+dir, err.Error(), nil)
			return
		}
		b := cont.Bytes()
		if dir == "fastgo->stdlib" && (len(b) < 8 || !bytes.Equal(b[len(b)-8:], want)) {
			c.Violate("trailer|gzip|length-mod-2^32", fmt.Sprintf("payload of 2^32+5 zero bytes: trailer %x, expected %x", b[max0(len(b)-8):], want), nil)
			return
		}
		z, err := ra.NewGzipReader(bytes.NewReader(b))
		var n int64
		if err == nil {
			n, err = countZeros(z)
		}
		c.Eval(1)
		if err != nil || n != total {
			c.Violate("payload|gzip|"+dir+"|over-4GiB", fmt.Sprintf("payload of 2^32+5 zero bytes %s: reader returned %d bytes, err=%v", dir, n, err), nil)
			return
		}
		c.Count("payload-over-4GiB "+dir, 1)
		c.Nontrivial("huge", dir, total)
		c.Sample(map[string]interface{}{"kind": "gzip", "direction": dir, "payload": "2^32+5 zero bytes", "container_len": len(b), "trailer": fmt.Sprintf("%x", b[len(b)-8:])})
	}
}

func (p c06) Run(c *mon.Ctx, i int) {
	if i == 0 && (c.Level == 0 || c.Level >= 3) {
		p.huge(c)
		return
	}
	r := c.R
	kind := []string{"gzip", "zlib"}[i%2]
	lvl := allLevels[r.Intn(len(allLevels))]
	if r.Chance(2, 3) {
		lvl = accelLevels[r.Intn(4)]
	}
	d := gen.RandomData(r, 300000)
	if i%11 == 0 {
		d = gen.Data{Desc: "empty"}
	}
	ops := gen.Schedule(r, len(d.B), gen.FlushPositions(r, len(d.B)), gen.PartitionStyles[r.Intn(4)])
	reuse := r.Chance(1, 3)
	desc := map[string]interface{}{"kind": kind, "level": lvl, "data": d.Desc, "data_sha": mon.Sha(d.B), "ops": gen.OpsString(ops), "second_stream_after_reset": reuse}

	if kind == "gzip" {
		h := randHeader(r)
		desc["header"] = fmt.Sprintf("name=%d comment=%d extra=%d mtime=%d os=%d", len(h.Name), len(h.Comment), len(h.Extra), h.ModTime.Unix(), h.OS)
		// unrepresentable headers: both must refuse
		if i%13 == 0 {
			bad := h
			switch r.Intn(3) {
			case 0:
				bad.Name = "bad\x00name"
			case 1:
				bad.Comment = "cafć" // not Latin-1
			default:
				bad.Extra = make([]byte, 65536)
			}
			var fe, se error
			for k, api := range []*impl.API{c.API, impl.Stdlib} {
				w, _ := api.NewGzipWriterLevel(io.Discard, lvl)
				w.SetHeader(bad)
				_, e := w.Write([]byte("x"))
				if e == nil {
					e = w.Close()
				}
				if k == 0 {
					fe = e
				} else {
					se = e
				}
			}
			c.Eval(1)
			if (fe == nil) != (se == nil) {
				c.Violate("unrepresentable-header", fmt.Sprintf("header %q/%q/extra %d: fastgo error=%v, standard library error=%v", bad.Name, bad.Comment, len(bad.Extra), fe, se), desc)
				return
			}
			c.Count("unrepresentable-headers-rejected-alike", 1)
		}
		write := func(api *impl.API) ([]byte, error) {
			var b bytes.Buffer
			w, err := api.NewGzipWriterLevel(&b, lvl)
			if err != nil {
				return nil, err
			}
			if reuse {
				w.SetHeader(randHeader(r))
				w.Write(gen.Make(r, "text", r.Range(0, 70000)).B)
				if r.Bool() {
					w.Close()
				}
				b.Reset()
				if r.Bool() {
					w.Reset(&bytes.Buffer{})
				}
				w.Reset(&b)
			}
			w.SetHeader(h)
			if err := runOps(w, d.B, ops); err != nil {
				return nil, err
			}
			return b.Bytes(), nil
		}
		read := func(api *impl.API, cont []byte) (impl.Header, []byte, error) {
			z, err := api.NewGzipReader(bytes.NewReader(cont))
			if err != nil {
				return impl.Header{}, nil, err
			}
			got, err := io.ReadAll(z)
			return z.Header(), got, err
		}
		for _, dir := range []string{"fastgo->stdlib", "stdlib->fastgo"} {
			wa, ra := c.API, impl.Stdlib
			if dir == "stdlib->fastgo" {
				wa, ra = impl.Stdlib, c.API
			}
			var cont, got []byte
			var gh impl.Header
			var werr, rerr error
			pv, st := mon.Safe(func() {
				cont, werr = write(wa)
				if werr == nil {
					gh, got, rerr = read(ra, cont)
				}
			})
			c.Eval(1)
			where := "gzip|" + dir
			if pv != nil {
				desc["stack"] = st
				c.Violate("panic|"+where, fmt.Sprint(pv), desc)
				return
			}
			if werr != nil {
				c.Violate("write-error|"+where, fmt.Sprintf("writer returned %v for a representable header", werr), desc)
				return
			}
			if rerr != nil || !bytes.Equal(got, d.B) {
				c.Violate("payload|"+where, fmt.Sprintf("gzip L%d %s: reader returned %d bytes, err=%v; payload is %d bytes (first difference %d)", lvl, dir, len(got), rerr, len(d.B), firstDiff(got, d.B)), desc)
				return
			}
			if f := hdrEqual(h, gh); f != "" {
				c.Violate("header-field|"+f[:2]+"|"+where, fmt.Sprintf("gzip %s: header field %s differs", dir, f), desc)
				return
			}
			if dir == "fastgo->stdlib" {
				want := gzipTrailer(d.B)
				if len(cont) < 8 || !bytes.Equal(cont[len(cont)-8:], want) {
					c.Violate("trailer|gzip", fmt.Sprintf("gzip trailer is %x, CRC-32/ISIZE of the payload are %x", cont[max0(len(cont)-8):], want), desc)
					return
				}
			}
			c.Count("gzip "+dir, 1)
			if len(d.B) > 0 {
				c.Nontrivial("gzip", dir, d.B, fmt.Sprint(h), lvl)
			}
		}
	} else {
		var dict []byte
		switch r.Intn(3) {
		case 1:
			dict = []byte("a short preset dictionary: the quick brown fox")
		case 2:
			dict = gen.Make(r, "text", r.Pick(32768, 32769, 40000, 100000)).B
		}
		desc["dict_len"] = len(dict)
		write := func(api *impl.API) ([]byte, error) {
			var b bytes.Buffer
			w, err := api.NewZlibWriterLevelDict(&b, lvl, dict)
			if err != nil {
				return nil, err
			}
			if reuse {
				w.Write(gen.Make(r, "text", r.Range(0, 70000)).B)
				if r.Bool() {
					w.Close()
				}
				b.Reset()
				if r.Bool() {
					// pooled writers are often Reset twice, onto different destinations
					w.Reset(&bytes.Buffer{})
				}
				w.Reset(&b)
			}
			if err := runOps(w, d.B, ops); err != nil {
				return nil, err
			}
			return b.Bytes(), nil
		}
		read := func(api *impl.API, cont []byte) ([]byte, error) {
			z, err := api.NewZlibReaderDict(bytes.NewReader(cont), dict)
			if err != nil {
				return nil, err
			}
			return io.ReadAll(z)
		}
		for _, dir := range []string{"fastgo->stdlib", "stdlib->fastgo"} {
			wa, ra := c.API, impl.Stdlib
			if dir == "stdlib->fastgo" {
				wa, ra = impl.Stdlib, c.API
			}
			var cont, got []byte
			var werr, rerr error
			pv, st := mon.Safe(func() {
				cont, werr = write(wa)
				if werr == nil {
					got, rerr = read(ra, cont)
				}
			})
			c.Eval(1)
			where := "zlib|" + dir
			if pv != nil {
				desc["stack"] = st
				c.Violate("panic|"+where, fmt.Sprint(pv), desc)
				return
			}
			if werr != nil {
				c.Violate("write-error|"+where, fmt.Sprintf("writer returned %v", werr), desc)
				return
			}
			if dir == "fastgo->stdlib" {
				want := be32(adler32.Checksum(d.B))
				if len(cont) < 4 || !bytes.Equal(cont[len(cont)-4:], want) {
					c.Violate("trailer|zlib", fmt.Sprintf("zlib trailer is %x, Adler-32 of the payload is %x", cont[max0(len(cont)-4):], want), desc)
					return
				}
			}
			if rerr != nil || !bytes.Equal(got, d.B) {
				// the standard library's dictionary writer replays the dictionary (see sigDictReplay)
				if dict != nil {
					if raw, ok := zlibDeflatePart(cont); ok {
						if dec, e := stdlibInflate(raw, dict); e == nil && isDelegatedDictReplay(dec, d.B, dict) {
							if dir == "fastgo->stdlib" {
								c.Violate(sigDictReplay, fmt.Sprintf("zlib L%d, %d-byte dictionary, data %s: %s", lvl, len(dict), d.Desc, whatDictReplay), desc)
							} else {
								c.Count("stdlib-own-dict-writer-replay (input not valid, skipped)", 1)
							}
							continue
						}
					}
				}
				c.Violate("payload|"+where, fmt.Sprintf("zlib L%d %s dict=%d: reader returned %d bytes, err=%v; payload is %d bytes (first difference %d)", lvl, dir, len(dict), len(got), rerr, len(d.B), firstDiff(got, d.B)), desc)
				return
			}
			c.Count("zlib "+dir, 1)
			if len(d.B) > 0 {
				c.Nontrivial("zlib", dir, d.B, len(dict), lvl)
			}
		}
	}
	if i%113 == 0 {
		c.Sample(desc)
	}
}

func max0(x int) int {
	if x < 0 {
		return 0
	}
	return x
}

var _ = crc32.ChecksumIEEE
