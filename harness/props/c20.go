package props

import (
	"bytes"
	"fmt"
	"strings"

	"fgverif/gen"
	"fgverif/impl"
	"fgverif/mon"
)

// C20 — compression is effective: bounded expansion, and repeats are
// actually found.
type c20 struct{}

func init() { register(c20{}) }

func (c20) ID() string            { return "C20" }
func (c20) EvidenceLevel() string { return "exploration" }
func (c20) Rule() string {
	return "case = (level in {-2,-1,1,2}, 32K/4K window, input of n bytes written with one Write and Close, no Flush, on a fresh Writer or (every fourth case) on one that was Reset before its first write or after an earlier stream (incl. skewed data ending in one rare long repeat) which was closed, abandoned, or failed on its destination during Close or Flush; every eighth case goes through the gzip or zlib Writer, the bounds then allow 18 bytes of container). Expansion inputs: uniform, near-uniform, Fibonacci- and geometric-skewed alphabets, statistics flipping every 20000 bytes, random data with sparse far 4-byte matches, all-equal 65536-byte blocks, sizes 0,1,100,8449,65535,65536,65537,200000,1 MiB: len(out) <= n + n/32 + 256. Effectiveness inputs: every period 1..64 x n in {65536,65537,100000,300000} at levels 1,2,-1: len(out) <= n/32 + 1200. The stream must also pass the C01 decode oracle. Non-trivial: n > 0; distinct by (setting, data digest). Among the periodic inputs are units over three symbols in which every cyclic 3-gram occurs at least twice and every 4-gram once (periods 54..64, an Euler circuit of a reduced de Bruijn graph)."
}
func (c20) NumCases(tier string) int {
	if tier == "thorough" {
		return 64*4*3*8 + 30000
	}
	return 64*4*5 + 1500
}

var c20Sizes = []int{0, 1, 100, 8449, 65535, 65536, 65537, 131072, 131073, 200000, 262144, 1 << 20}

func (c20) Run(c *mon.Ctx, i int) {
	r := c.R
	nper := 64 * 4 * 5
	if c.Tier == "thorough" {
		nper = 64 * 4 * 3 * 8
	}
	var s Setting
	var d gen.Data
	periodic := 0
	alpha := 256
	if i < nper {
		period := i%64 + 1
		n := []int{65536, 65537, 100000, 300000}[(i/64)%4]
		s = Setting{Wrapper: "flate", Level: []int{1, 2, -1}[r.Intn(3)], Win4K: r.Bool()}
		if c.Tier == "thorough" {
			k := i / 256 / 3
			s = accelSettings[[]int{0, 1, 2, 4, 5, 6, 0, 4}[k%8]]
		}
		d = gen.Periodic(r, n, period)
		switch cls := (i / 256) % 5; cls {
		case 1, 2:
			// random pattern over 2 / 3 symbols: short n-grams recur inside the unit
			alpha = cls + 1
			d = gen.PeriodicAlpha(r, n, period, alpha)
		case 3:
			alpha = r.Pick(4, 16)
			d = gen.PeriodicAlpha(r, n, period, alpha)
		case 4:
			// few symbols but every cyclic 4-gram of the unit distinct: the newest
			// candidate for any 4 bytes is exactly one period back
			// alphabet size enumerated with the size index: three symbols (every
			// 3-gram recurs in a unit longer than 27) for two sizes, four and five
			alpha = []int{3, 3, 4, 5}[(i/64)%4]
			u, ok := []byte(nil), false
			if alpha == 3 && period >= 54 && (i/64)%4 == 0 {
				// every 3-gram of the unit twice, every 4-gram once
				u, ok = gen.DoubleGramUnit(r, period)
			}
			if !ok {
				u, ok = gen.DistinctGramUnit(r, period, alpha, 4)
			}
			if ok {
				b := make([]byte, n)
				for j := range b {
					b[j] = u[j%len(u)]
				}
				d = gen.Data{Desc: fmt.Sprintf("period%d-alpha%d-distinct4grams/%d", period, alpha, n), B: b}
			}
		}
		periodic = period
	} else if k := i - nper; k < 8*2*3 {
		// fixed core: one dominant byte value among high-entropy bytes, at sizes
		// of one, two and eight Huffman-only blocks (symbol counts at and beyond 2^16)
		s = accelSettings[k%8]
		fam := []string{"utf16", "dominant"}[(k/8)%2]
		d = gen.Make(r, fam, []int{131072, 262144, 1 << 20}[k/16])
	} else {
		s = accelSettings[r.Intn(len(accelSettings))]
		fam := []string{"uniform", "nearuniform", "fib", "geom", "flip", "sparsematch", "equal", "uniform", "alpha2", "mixed", "zeros-then-random", "utf16", "dominant", "utf16", "fibexact", "fibexact"}[r.Intn(16)]
		n := c20Sizes[r.Intn(len(c20Sizes))]
		if r.Chance(1, 3) {
			n = gen.RandomSize(r, 0)
		}
		if fam == "equal" {
			n = 65536 * r.Range(1, 4)
		}
		d = gen.Make(r, fam, n)
	}
	n := len(d.B)
	overhead := 0
	if i%4 == 3 && i%8 == 7 && s.Level != 0 {
		// the same compressor reached through the gzip / zlib entry points
		s.Wrapper = []string{"gzip", "zlib"}[r.Intn(2)]
		s.Win4K = false
		overhead = 18
	}
	// history of the Writer before the measured stream: fresh, or Reset after an
	// earlier stream that was finished, abandoned, or failed on its destination
	history := "fresh"
	var out []byte
	var err error
	if i%4 == 3 {
		history = []string{"reset-after-close", "reset-after-failed-close", "reset-after-failed-flush", "reset-after-abandoned", "reset-after-failed-close", "reset-before-first-write", "reset-after-close"}[r.Intn(7)]
		prev := gen.Make(r, []string{"uniform", "text", "alpha4"}[r.Intn(3)], r.Pick(1, 40, 700, 3000, 20000, 70000, 200000))
		if r.Chance(1, 3) {
			// skewed data whose last block holds one rare long repeat: the rarest
			// symbols of the earlier stream get the longest codes
			b := gen.Make(r, []string{"text", "fibexact", "geom", "fib"}[r.Intn(4)], r.Pick(3000, 20000, 70000)).B
			k := r.Range(258, 600)
			if k > len(b)/2 {
				k = len(b) / 2
			}
			b = append(b, b[len(b)-k:]...)
			prev = gen.Data{Desc: fmt.Sprintf("skewed-with-one-long-repeat/%d", len(b)), B: b}
		}
		if history == "reset-before-first-write" {
			prev.B = nil
		}
		sink := &Sink{}
		if history == "reset-after-failed-close" || history == "reset-after-failed-flush" {
			sink.FailAt = r.Pick(1, 1, 2, 3)
			sink.FailErr = errDst
			sink.Partial = r.Bool()
		}
		var w impl.Writer
		w, err = NewWriter(c.API, s, sink)
		if err == nil {
			if len(prev.B) > 0 {
				w.Write(prev.B)
			}
			switch history {
			case "reset-after-close", "reset-after-failed-close":
				w.Close()
			case "reset-after-failed-flush":
				w.Flush()
			}
			var b bytes.Buffer
			w.Reset(&b)
			err = runOps(w, d.B, []gen.Op{{Kind: "write", N: n}, {Kind: "close"}})
			out = b.Bytes()
		}
		history += fmt.Sprintf("(%s)", prev.Desc)
	} else {
		out, err = emit(c.API, s, d.B, []gen.Op{{Kind: "write", N: n}, {Kind: "close"}})
	}
	if err != nil {
		c.Count("dropped:writer-error", 1)
		return
	}
	c.Eval(1)
	c.Count("writer-history:"+strings.SplitN(history, "(", 2)[0], 1)
	desc := map[string]interface{}{"setting": s.String(), "data": d.Desc, "data_sha": mon.Sha(d.B), "n": n, "out_len": len(out), "writer_history": history}
	body := out
	switch s.Wrapper {
	case "gzip":
		if b, ok := gzipDeflatePart(out); ok {
			body = b
		}
	case "zlib":
		if b, ok := zlibDeflatePart(out); ok {
			body = b
		}
	}
	if sig, what, _ := DecodeChecks(c.API, body, d.B, nil); sig != "" {
		c.Violate("round-trip|"+sig, fmt.Sprintf("%s data %s: %s", s, d.Desc, what), desc)
		return
	}
	bound := n + n/32 + 256 + overhead
	if len(out) > bound {
		c.Violate(fmt.Sprintf("expansion|level=%d|win4k=%v|wrapper=%s", s.Level, s.Win4K, s.Wrapper), fmt.Sprintf("%s, data %s: %d bytes in, %d bytes out, bound n+n/32+256 = %d", s, d.Desc, n, len(out), bound), desc)
		return
	}
	c.Max(fmt.Sprintf("worst (out-n)/(n/32+256) at %s", s), float64(len(out)-n)/float64(n/32+256))
	if periodic > 0 && s.Level != -2 {
		pb := n/32 + 1200
		c.Max(fmt.Sprintf("worst out/(n/32+1200) periodic, pattern alphabet %d", alpha), float64(len(out))/float64(pb))
		if len(out) > pb {
			desc["pattern_alphabet"] = alpha
			desc["period"] = periodic
			if period := periodic; period <= len(d.B) && gen.HasRepeatedGram(d.B[:period], 4) {
				// the listed limitation: some 4 bytes of the unit also occur elsewhere in the unit
				c.Violate(sigRepeated4gram, fmt.Sprintf("%s, period %d over %d symbols, n=%d: %d bytes out, bound n/32+1200 = %d; %s", s, periodic, alpha, n, len(out), pb, whatRepeated4gram), desc)
				return
			}
			c.Violate(fmt.Sprintf("repeats-not-found|level=%d|win4k=%v", s.Level, s.Win4K), fmt.Sprintf("%s, period %d, n=%d: %d bytes out, bound n/32+1200 = %d", s, periodic, n, len(out), pb), desc)
			return
		}
		c.Max(fmt.Sprintf("worst out/(n/32+1200) periodic at %s", s), float64(len(out))/float64(pb))
		c.Count("periodic-inputs-within-bound", 1)
	}
	c.Count("inputs-within-expansion-bound", 1)
	if n > 0 {
		c.Nontrivial(s.String(), d.B)
	}
	if i%157 == 0 {
		c.Sample(desc)
	}
}

// The match finders keep one position per hash of 4 bytes (the newest). When
// 4 bytes of the period unit also occur elsewhere in the unit, the newest
// occurrence is closer than one period and matches only a few bytes, so the
// output is several times the stated bound (it still shrinks 5-10x). The
// signature names that circumstance; units whose 4-grams are all distinct are
// not covered by it.
const sigRepeated4gram = "repeats-not-found|period-unit-has-a-repeated-4-gram"
const whatRepeated4gram = "the period unit contains 4 bytes that occur twice in it, so the single-candidate match finder latches onto the nearer occurrence"
