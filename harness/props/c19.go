package props

import (
	"bytes"
	"fmt"

	"fgverif/gen"
	"fgverif/impl"
	"fgverif/mon"
	"fgverif/refinf"
)

// C19 — the 4 KiB-window writer never refers back more than 4096 bytes.
type c19 struct{}

func init() { register(c19{}) }

func (c19) ID() string            { return "C19" }
func (c19) EvidenceLevel() string { return "exploration" }
func (c19) Rule() string {
	return "case = (constructor 4K or ordinary, level in {1,2,-1} plus 3..9 on the 4K constructor, data built so that matches exist exactly at a chosen distance: a random chunk repeated with period p for p in 4090..4102, 32762..32774, 65530..65542 (16-bit position aliasing), two interleaved periods, far copies at W-1/W/W+1, inputs of 3-5 x 64 KiB; an enumerated sweep of total lengths W+1..W+48 with period W+1..W+3 over a compressible unit, compressed in one go; a token-cap sweep on the 4K constructor (leading zero run of K bytes for 2900 consecutive K, incompressible rest, far repeats at every buffer-fill point); reused Writers whose earlier destination failed; Write/Flush partitions as in C09). The reference inflater decodes the whole output recording every match distance: the maximum must be <= 4096 (4K constructor) resp. <= 32768, the stream must also decode with a reference whose history is truncated to the window, and the data must round-trip. Non-trivial: the stream contains at least one match; distinct by (setting, data digest, schedule)."
}
func (c19) NumCases(tier string) int {
	if tier == "thorough" {
		return 40000
	}
	return 1500
}

func (c19) Run(c *mon.Ctx, i int) {
	r := c.R
	s := Setting{Wrapper: "flate"}
	s.Win4K = i%3 != 2
	if s.Win4K {
		s.Level = []int{1, 2, -1, 1, 2, -1, 3, 5, 6, 9}[r.Intn(10)]
	} else {
		s.Level = []int{1, 2, -1}[r.Intn(3)]
	}
	W := 32768
	if s.Win4K {
		W = 4096
	}
	var d gen.Data
	n := r.Pick(3, 4, 5)*65536 + r.Range(-100, 100)
	if i%7 == 6 {
		n = r.Range(1, 20000)
	}
	switch i % 5 {
	case 0:
		p := W - 6 + r.Intn(13) // 4090..4102 or 32762..32774
		d = gen.Periodic(r, n, p)
	case 1:
		p := 65530 + r.Intn(13)
		d = gen.Periodic(r, n, p)
	case 2:
		// two interleaved periods: one legal, one just too far
		a := gen.Periodic(r, n, W-r.Range(0, 3)).B
		b := gen.Periodic(r, n, W+r.Range(1, 3)).B
		out := make([]byte, n)
		for k := 0; k < n; {
			l := r.Range(4, 300)
			src := a
			if r.Bool() {
				src = b
			}
			for j := 0; j < l && k < n; j++ {
				out[k] = src[k]
				k++
			}
		}
		d = gen.Data{Desc: fmt.Sprintf("interleaved-periods/%d", n), B: out}
	case 3:
		d = gen.Make(r, "farcopy", n)
	default:
		p := r.Pick(1, 2, 3, 64, 258, 1000, 2048, 4000, 4096, 8192, 16384, 30000, 32768)
		d = gen.Periodic(r, n, p)
	}
	ops := gen.Schedule(r, len(d.B), gen.FlushPositions(r, len(d.B)), gen.PartitionStyles[r.Intn(4)])
	if i%10 == 9 {
		// big and tiny Writes alternating, a Flush after each: a handful of
		// pending bytes (below the 16 an assembly call needs) at a buffer
		// position beyond one window
		n := r.Range(20000, 60000)
		if r.Bool() {
			d = gen.Periodic(r, n, r.Pick(1, 2, 4, 16, 64))
		} else {
			d = gen.Make(r, []string{"equal", "text", "alpha2"}[r.Intn(3)], n)
		}
		ops = nil
		for left := n; left > 0; {
			k := r.Range(W+1, W+3000)
			if len(ops)%4 == 2 {
				k = r.Range(1, 20)
			}
			if k > left {
				k = left
			}
			ops = append(ops, gen.Op{Kind: "write", N: k}, gen.Op{Kind: "flush"})
			left -= k
		}
		ops = append(ops, gen.Op{Kind: "close"})
		c.Count("tiny-tail-histories", 1)
	}
	if i%10 == 3 {
		// first-window-boundary sweep: the stream is W+1..W+48 bytes long in all
		// when the first compression happens, and the only repeats in it lie
		// just beyond the window (period W+1..W+3 over a compressible unit, so
		// that matches inside the unit move the match finder's position parity)
		k := i / 10
		n := W + 1 + k%48
		p := W + 1 + (k/48)%3
		fam := []string{"alpha8", "text", "alpha4", "alpha16", "dominant"}[(k/144)%5]
		mk := func() (gen.Data, []gen.Op) {
			unit := gen.Make(r, fam, p).B
			for len(unit) < p {
				unit = append(unit, byte(r.Intn(256)))
			}
			head := 0
			if r.Chance(3, 4) {
				// a head that occurs nowhere else in the unit: its hash slot still
				// points at position 0 when the repeat arrives one period later
				head = r.Range(4, 20)
				for j := 0; j < head; j++ {
					unit[j] = byte(0x80 + r.Intn(0x80))
				}
			}
			b := make([]byte, n)
			for j := range b {
				b[j] = unit[j%p]
			}
			d := gen.Data{Desc: fmt.Sprintf("first-boundary/n=%d/period=%d/%s/head=%d", n, p, fam, head), B: b}
			ops := []gen.Op{{Kind: "write", N: n}, {Kind: "close"}}
			switch r.Intn(4) {
			case 0:
				ops = []gen.Op{{Kind: "write", N: n}, {Kind: "flush"}, {Kind: "close"}}
			case 1:
				a := r.Range(1, n-1)
				ops = []gen.Op{{Kind: "write", N: a}, {Kind: "write", N: n - a}, {Kind: "close"}}
			}
			return d, ops
		}
		// several units per (n, p): whether a far candidate is probed depends on
		// the unit (hash slot survival, position parity)
		for t := 0; t < 7; t++ {
			dd, oo := mk()
			o, e := emit(c.API, s, dd.B, oo)
			if e != nil {
				c.Count("dropped:writer-error", 1)
				continue
			}
			c19Verify(c, -1, s, W, dd, oo, o, false)
		}
		d, ops = mk()
		c.Count("first-window-boundary-sweep", 1)
	}
	if i%10 == 7 && s.Win4K {
		// token-cap sweep: a leading zero run of K bytes, then incompressible bytes
		// (one token each), so that the number of pending tokens at the points
		// where the input buffer fills walks across the token buffer's capacity
		// (32767; the match finder is entered through its fallback when fewer than
		// four slots are left); at those points repeats from just beyond the
		// window are on offer
		k := i / 10
		// twenty trials per case walk K through 1500..4400; eight stay within eight
		// of the values at which a changed fallback was seen to matter (they move a
		// little with the data), with a level served by the level-2 match finder
		centres := []int{1625, 3851, 5986, 8250}
		for t := 0; t < 28; t++ {
			K := 1500 + (k*20+t)%2900
			st := s
			if t >= 20 {
				K = centres[(k+t)%4] - 8 + r.Intn(17)
				st.Level = []int{2, -1, 2, 6}[r.Intn(4)]
			}
			dd := tokenCapFarCopy(r, K, 100000, W+1+r.Intn(3))
			oo := []gen.Op{{Kind: "write", N: len(dd.B)}, {Kind: "close"}}
			o, e := emit(c.API, st, dd.B, oo)
			if e != nil {
				c.Count("dropped:writer-error", 1)
				continue
			}
			c19Verify(c, -1, st, W, dd, oo, o, false)
		}
		c.Count("token-cap-sweep-cases", 1)
	}
	// call pattern: in a third of the cases the Writer has served another stream
	// before (written, perhaps closed, then Reset)
	reused := i%3 == 1
	var out []byte
	var err error
	if reused {
		var b bytes.Buffer
		var w impl.Writer
		// the earlier stream's destination fails in half of the cases
		b0 := &Sink{}
		if r.Bool() {
			b0.FailAt = r.Pick(1, 1, 2, 3)
			b0.FailErr = errDst
			c.Count("streams-from-a-writer-reset-after-a-destination-error", 1)
		}
		w, err = NewWriter(c.API, s, b0)
		if err == nil {
			prev := gen.Make(r, []string{"text", "uniform", "period"}[r.Intn(3)], r.Pick(10, 5000, 20000, 70000))
			w.Write(prev.B)
			if r.Bool() {
				w.Close()
			}
			w.Reset(&b)
			err = runOps(w, d.B, ops)
			out = b.Bytes()
		}
		c.Count("streams-from-a-reused-writer", 1)
	} else {
		out, err = emit(c.API, s, d.B, ops)
	}
	if err != nil {
		c.Count("dropped:writer-error", 1)
		return
	}
	c19Verify(c, i, s, W, d, ops, out, reused)
}

func c19Verify(c *mon.Ctx, i int, s Setting, W int, d gen.Data, ops []gen.Op, out []byte, reused bool) {
	c.Eval(1)
	desc := map[string]interface{}{"writer_reused_after_reset": reused, "setting": s.String(), "data": d.Desc, "data_sha": mon.Sha(d.B), "ops": gen.OpsString(ops), "window": W}
	res := refinf.Inflate(out, refinf.Options{Strict: true, MaxOut: len(d.B) + 1024})
	if res.Status != refinf.Complete || !bytes.Equal(res.Out, d.B) {
		c.Violate("round-trip|"+s.String(), fmt.Sprintf("%s data %s: reference inflater: %s", s, d.Desc, res), desc)
		return
	}
	if res.MaxDist > W {
		desc["max_distance"] = res.MaxDist
		c.Violate(fmt.Sprintf("distance-beyond-window|win4k=%v|level=%d|reused=%v", s.Win4K, s.Level, reused), fmt.Sprintf("%s, data %s, ops [%s]: the output contains a match with distance %d, window is %d", s, d.Desc, gen.OpsString(ops), res.MaxDist, W), desc)
		return
	}
	lim := refinf.Inflate(out, refinf.Options{Strict: true, Window: W, MaxOut: len(d.B) + 1024})
	if lim.Status != refinf.Complete || !bytes.Equal(lim.Out, d.B) {
		c.Violate(fmt.Sprintf("not-decodable-with-window|win4k=%v", s.Win4K), fmt.Sprintf("%s, data %s: a decoder with %d bytes of history fails: %s", s, d.Desc, W, lim), desc)
		return
	}
	c.Count("streams-within-window", 1)
	c.Max(fmt.Sprintf("max-distance-seen/window-%d", W), float64(res.MaxDist))
	for k, v := range res.DistHist {
		if v > 0 {
			c.Count(fmt.Sprintf("matches-with-distance<=2^%02d/window-%d", k, W), v)
		}
	}
	if res.MaxDist > W/2 {
		c.Count(fmt.Sprintf("streams-approaching-the-bound/window-%d", W), 1)
	}
	if res.MaxDist == W {
		c.Count(fmt.Sprintf("streams-reaching-the-bound-exactly/window-%d", W), 1)
	}
	if res.Matches > 0 {
		c.Nontrivial(s.String(), d.B, gen.OpsString(ops))
	}
	if i >= 0 && i%131 == 0 {
		desc["max_distance"] = res.MaxDist
		desc["matches"] = res.Matches
		c.Sample(desc)
	}
}

func (c19) Offline(j *mon.Joined) {
	for _, w := range []int{4096, 32768} {
		if j.Counters[fmt.Sprintf("streams-approaching-the-bound/window-%d", w)] == 0 {
			j.Warn("no stream used a distance in (W/2, W] for window %d: the bound was never approached", w)
		}
	}
}
