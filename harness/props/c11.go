package props

import (
	"bytes"
	"errors"
	"fmt"
	"io"
	"sync"
	"sync/atomic"

	"fgverif/gen"
	"fgverif/impl"
	"fgverif/mon"
	"fgverif/synth"
)

// C11 — the Reader delivers what it already has: no waiting on input it does
// not need.
type c11 struct{}

func init() { register(c11{}) }

func (c11) ID() string            { return "C11" }
func (c11) EvidenceLevel() string { return "exploration" }
func (c11) Rule() string {
	return "case = (flate/gzip/zlib stream with 1..5 sync-flush points from fastgo's or the standard library's writer, a prefix ending at a flush point or at the stream end, gate chunking {whole prefix, 1 byte per read, random}, behaviour after the prefix {error, unrelated bytes, really blocks}, transport {plain io.Reader, bufio 64, bufio 4096}). The gated source records an over-demand event (a request it cannot serve from the prefix) stamped with the number of bytes the consumer had received. Violated iff that stamp is below the number of bytes encoded in the prefix (or the event precedes io.EOF at the stream end; gzip in default multistream mode is only required to deliver the data), or if the bytes received differ from the prefix's data. No clock is involved: with the blocking gate the parked reader goroutine is the event. Non-trivial: prefix encodes at least one byte; distinct by (stream digest, prefix, gate)."
}
func (c11) NumCases(tier string) int {
	if tier == "thorough" {
		return 20000
	}
	return 1500
}

var errGate = errors.New("gate: source failed after the released prefix")

// gate serves reads from a fixed prefix; the first request it cannot serve is
// the over-demand event.
type gate struct {
	mu       sync.Mutex
	data     []byte
	next     func() int
	after    string // error, garbage, block
	garbage  *gen.Rand
	received *int64 // consumer's byte count
	event    chan int64
	fired    bool
	release  chan struct{}
}

func (g *gate) Read(p []byte) (int, error) {
	g.mu.Lock()
	if len(g.data) > 0 {
		n := g.next()
		if n < 1 {
			n = 1
		}
		if n > len(p) {
			n = len(p)
		}
		if n > len(g.data) {
			n = len(g.data)
		}
		copy(p, g.data[:n])
		g.data = g.data[n:]
		g.mu.Unlock()
		return n, nil
	}
	first := !g.fired
	g.fired = true
	g.mu.Unlock()
	if first {
		g.event <- atomic.LoadInt64(g.received)
	}
	switch g.after {
	case "garbage":
		n := len(p)
		if n > 64 {
			n = 64
		}
		g.mu.Lock()
		g.garbage.Fill(p[:n])
		g.mu.Unlock()
		return n, nil
	case "block":
		<-g.release
		return 0, errGate
	case "eof":
		return 0, io.EOF
	}
	return 0, errGate
}

func (c11) Run(c *mon.Ctx, i int) {
	r := c.R
	wrapper := []string{"flate", "flate", "gzip", "zlib"}[i%4]
	if i%10 == 7 {
		wrapper = "flate" // the window-end family below (enumerated by i/10)
	}
	d := gen.RandomData(r, 60000)
	switch i % 8 {
	case 5:
		// highly compressible data a little over the 64 KiB history buffer: the
		// last few compressed bytes stand for more output than the buffer has room
		// for, so the output side fills up after all input has been taken in
		d = gen.Make(r, []string{"equal", "period", "runs", "alpha2"}[r.Intn(4)], 65536*r.Range(1, 3)+r.Range(1, 3100))
	case 6:
		d = gen.RandomData(r, 300000)
	}
	if len(d.B) == 0 {
		d = gen.Make(r, "text", 100)
	}
	// flush positions: 1..5 distinct-ish
	var fl []int
	for k := r.Range(1, 5); k > 0; k-- {
		fl = append(fl, r.Intn(len(d.B)+1))
	}
	for a := 1; a < len(fl); a++ {
		for b := a; b > 0 && fl[b] < fl[b-1]; b-- {
			fl[b], fl[b-1] = fl[b-1], fl[b]
		}
	}
	enc := impl.Stdlib
	if r.Bool() {
		enc = c.API
	}
	lvl := allLevels[r.Intn(len(allLevels))]
	vs, err := encodeWith(enc, Setting{Wrapper: wrapper, Level: lvl}, d.B, fl)
	if err != nil {
		c.Count("dropped:encode-error", 1)
		return
	}
	if wrapper == "flate" && i%5 == 2 {
		// shapes no writer at hand emits: a stream whose final block is a non-empty
		// stored block (zlib level 0, pigz -0), or any synthesised stream
		st := synth.NewStream(r)
		if r.Bool() {
			st.Fixed(false, synth.RandomTokens(r, 0, r.Range(0, 300), "mixed"), true)
		}
		if r.Chance(2, 3) {
			st.Stored(true, r.Bytes(r.Range(1, 400)))
		} else {
			st.Fixed(true, synth.RandomTokens(r, len(st.Plain), r.Range(0, 300), "mixed"), true)
		}
		vs = &ValidStream{S: st.W.Bytes(), Plain: st.Plain, Desc: "synth " + fmt.Sprint(st.Desc)}
		d = gen.Data{Desc: "synth", B: st.Plain}
	}
	windowEnd := false
	if wrapper == "flate" && i%10 == 7 {
		// the decoder's 64 KiB output window becomes full on the very last symbols
		// before a flush point or the end of the stream: totals of 65536..65540 and
		// the same after one or two further 32 KiB refills, the tail Huffman-coded
		T := r.Pick(65536, 98304+r.Range(0, 4), 131072+r.Range(0, 6)) + r.Range(0, 4)
		if r.Bool() {
			// the totals at which the last literal meets the full window exactly
			T = 65537 + r.Pick(0, 1, 2)*32769
		}
		nine := (i / 10) % 8 // how many of the last literals take 9-bit fixed codes: sweeps the final bit alignment
		fixedFinal := false
		if idx := (i / 10) % 48; idx < 24 {
			// enumerated: the three critical totals x the eight bit alignments, final fixed block
			T, nine, fixedFinal = 65537+(idx/8)*32769, idx%8, true
		}
		st := synth.NewStream(r)
		for left := T - r.Range(3, 40); left > 0; {
			n := left
			if n > 65535 {
				n = r.Range(20000, 65535)
			}
			st.Stored(false, r.Bytes(n))
			left -= n
		}
		var toks []synth.Token
		for len(st.Plain)+len(toks) < T {
			toks = append(toks, synth.Lit(byte(r.Intn(144)))) // 8-bit fixed codes
		}
		for k := 0; k < nine && k < len(toks); k++ {
			toks[len(toks)-1-k] = synth.Lit(byte(144 + r.Intn(112))) // 9-bit fixed codes
		}
		atFlush := r.Bool() && !fixedFinal
		if r.Bool() || fixedFinal {
			st.Fixed(!atFlush, toks, true)
		} else {
			lit, dist := synth.LengthsFor(r, toks, synth.CodeOpts{MaxLit: r.Range(3, 9)})
			sp := synth.NewDynSpec()
			sp.LitLens, sp.DistLens = lit, dist
			st.Dynamic(!atFlush, toks, sp, true)
		}
		vs = &ValidStream{Desc: fmt.Sprintf("synth window-end T=%d flush=%v", T, atFlush)}
		if atFlush {
			st.Stored(false, nil) // sync marker
			vs.FlushEnds = []int{len(st.W.Bytes())}
			vs.PlainAt = []int{len(st.Plain)}
			st.Fixed(true, synth.RandomTokens(r, len(st.Plain), r.Range(1, 50), "lits"), true)
		}
		vs.S, vs.Plain = st.W.Bytes(), st.Plain
		d = gen.Data{Desc: "synth", B: st.Plain}
		windowEnd = true
	}
	// choose prefix
	pi := r.Intn(len(vs.FlushEnds) + 1)
	if windowEnd {
		pi = 0 // the flush point when there is one, else the stream end
	}
	var prefix []byte
	var expect []byte
	atEnd := false
	if pi == len(vs.FlushEnds) {
		prefix, expect, atEnd = vs.S, d.B, true
	} else {
		prefix, expect = vs.S[:vs.FlushEnds[pi]], d.B[:vs.PlainAt[pi]]
	}
	chunk := []string{"whole", "onebyte", "random"}[r.Intn(3)]
	after := []string{"error", "garbage", "block", "eof"}[r.Intn(4)]
	transport := []string{"plain", "plain", "bufio64", "bufio4096", "bufio16"}[r.Intn(5)]
	multistream := true
	if wrapper == "gzip" {
		multistream = r.Bool()
	}
	var received int64
	g := &gate{data: append([]byte(nil), prefix...), after: after, garbage: gen.New(r.U64()), received: &received,
		event: make(chan int64, 1), release: make(chan struct{})}
	switch chunk {
	case "whole":
		g.next = func() int { return 1 << 30 }
	case "onebyte":
		g.next = func() int { return 1 }
	default:
		cr := gen.New(r.U64())
		g.next = func() int { return cr.Range(1, 700) }
	}
	var src io.Reader = g
	switch transport {
	case "bufio64":
		src = bufioOf(g, 64)
	case "bufio4096":
		src = bufioOf(g, 4096)
	case "bufio16":
		src = bufioOf(g, 16)
	}
	needEOF := atEnd && !(wrapper == "gzip" && multistream)
	rstyle := gen.ReadStyles[2+r.Intn(5)]
	if windowEnd || r.Chance(1, 6) {
		rstyle = []string{"128k", "64k", "random", "128k"}[r.Intn(4)]
	}
	sizes := gen.ReadSizes(gen.New(r.U64()), rstyle)

	type result struct {
		got    []byte
		sawEOF bool
		err    error
		panicV interface{}
		stack  string
	}
	done := make(chan result, 1)
	go func() {
		var res result
		res.panicV, res.stack = mon.Safe(func() {
			var rd io.Reader
			switch wrapper {
			case "flate":
				rd = c.API.NewFlateReader(src)
			case "gzip":
				z, err := c.API.NewGzipReader(src)
				if err != nil {
					res.err = err
					return
				}
				z.Multistream(multistream)
				rd = z
			case "zlib":
				z, err := c.API.NewZlibReader(src)
				if err != nil {
					res.err = err
					return
				}
				rd = z
			}
			zeros := 0
			var rbuf []byte
			for {
				if len(res.got) >= len(expect) && !needEOF {
					return
				}
				n := sizes()
				if n > len(rbuf) {
					rbuf = make([]byte, n)
				}
				p := rbuf[:n]
				k, e := rd.Read(p)
				res.got = append(res.got, p[:k]...)
				atomic.AddInt64(&received, int64(k))
				if e == io.EOF {
					res.sawEOF = true
					return
				}
				if e != nil {
					res.err = e
					return
				}
				if k == 0 {
					zeros++
					if zeros > 1000 {
						res.err = errors.New("more than 1000 consecutive (0,nil)")
						return
					}
				} else {
					zeros = 0
				}
				if len(res.got) > len(expect)+1<<20 {
					return
				}
			}
		})
		done <- res
	}()
	var res result
	var stamp int64 = -1
	select {
	case res = <-done:
		select {
		case stamp = <-g.event:
		default:
		}
	case stamp = <-g.event:
		// the reader asked for more than the prefix. With the blocking gate
		// its goroutine is now parked inside source.Read; note what the
		// consumer holds, then let it go.
		if after == "block" {
			c.Count("observed-reader-parked-in-source-read", 1)
		}
		close(g.release)
		res = <-done
	}
	if after == "block" {
		select {
		case <-g.release:
		default:
			close(g.release)
		}
	}
	c.Eval(1)
	where := fmt.Sprintf("reader=%s|prefix=%s|transport=%s", wrapper, map[bool]string{true: "stream-end", false: "flush-point"}[atEnd], transport)
	desc := map[string]interface{}{"wrapper": wrapper, "stream": vs.Desc, "data": d.Desc, "stream_sha": mon.Sha(vs.S), "prefix_len": len(prefix), "expect_len": len(expect),
		"at_stream_end": atEnd, "gate_chunk": chunk, "after_prefix": after, "transport": transport, "multistream": multistream,
		"received": len(res.got), "over_demand_stamp": stamp, "saw_eof": res.sawEOF, "err": fmt.Sprint(res.err)}
	if res.panicV != nil {
		desc["stack"] = res.stack
		c.Violate("panic|"+mon.PanicSite(res.stack), fmt.Sprintf("panicked: %v", res.panicV), desc)
		return
	}
	if !isPrefix(res.got, expect) && !(len(res.got) > len(expect) && bytes.Equal(res.got[:len(expect)], expect)) {
		c.Violate("wrong-bytes|"+where, fmt.Sprintf("bytes received differ from the data encoded in the prefix at %d", firstDiff(res.got, expect)), desc)
		return
	}
	if stamp >= 0 && stamp < int64(len(expect)) {
		c.Violate("over-demand-before-data|"+where, fmt.Sprintf("%s reader asked its source for bytes beyond the %d-byte prefix while the caller had received %d of the %d bytes encoded in it (source then: %s)", wrapper, len(prefix), stamp, len(expect), after), desc)
		return
	}
	if stamp < 0 && len(res.got) < len(expect) {
		c.Violate("short-without-demand|"+where, fmt.Sprintf("reader stopped after %d of %d bytes with %v without asking for more input", len(res.got), len(expect), res.err), desc)
		return
	}
	if needEOF && stamp >= 0 {
		// io.EOF was due without any further input: asking the source at all
		// (before returning it) is the violation, even if the source's answer
		// then let the Reader finish
		c.Violate("over-demand-before-eof|"+where, fmt.Sprintf("%s reader had delivered all %d bytes of a complete stream but asked its source for more input before returning io.EOF (source then: %s; Read finally returned: eof=%v err=%v)", wrapper, len(expect), after, res.sawEOF, res.err), desc)
		return
	}
	if needEOF && !res.sawEOF {
		c.Violate("over-demand-before-eof|"+where, fmt.Sprintf("%s reader delivered all %d bytes but asked its source for more input instead of returning io.EOF at the end of the stream (then: %v)", wrapper, len(expect), res.err), desc)
		return
	}
	c.Count("prefix-delivered-without-over-demand", 1)
	c.Count("after:"+after, 1)
	c.Count("where:"+where, 1)
	if len(expect) > 0 {
		c.Nontrivial(vs.S, pi, chunk, after, transport)
	}
	if i%101 == 0 {
		c.Sample(desc)
	}
}
