package props

import (
	"bytes"
	"crypto/sha256"
	"encoding/hex"
	"fmt"
	"io"
	"runtime"
	"sort"
	"sync"
	"time"

	"fgverif/gen"
	"fgverif/impl"
	"fgverif/mon"
	"fgverif/synth"
)

// C17 — separate Writers and Readers do not interfere when used concurrently.
type c17 struct{}

func init() { register(c17{}) }

func (c17) ID() string            { return "C17" }
func (c17) EvidenceLevel() string { return "exploration" }
func (c17) Rule() string {
	return "case = (G in {2,8,32,128} goroutines, GOMAXPROCS in {1,2,4,16}, a seeded set of workloads, each owning its instances: compress at every level/window/wrapper with Flush and Reset-reuse; decompress valid streams (fixed blocks, which all read the shared static tables; dynamic blocks, which build tables); decompress malformed streams (error paths); gzip/zlib round trips). All workloads run concurrently first (released together by a gate, runtime.Gosched()/spin injected in the harness's reader/writer callbacks), so that the first case of every child process starts cold (that case is widened to every workload kind twice, side by side, and a separate pass of the race build runs one case per process to multiply the cold starts); then each workload's digest (sha256 over every emission, decoded output and error kind, in order) is computed again on one goroutine; every concurrent digest must equal the sequential one. Every third case is homogeneous: all workloads are of one kind with coinciding size parameters (e.g. zlib preset dictionaries of one length and different contents), so that all goroutines contend on the same paths. The race-detector build runs the same cases at level 0 (all Go code instrumented) and at the highest level; any report block is a violation. Overlap is measured, not assumed: workloads whose [start,end] intervals (monotonic time stamps kept per workload, with no synchronisation between workloads that the race detector could take for ordering) intersect are counted, and the order of the first 64 callback events is the interleaving signature; time stamps serve the evidence only, never the verdict. Non-trivial: a case in which at least two workloads overlapped; distinct by interleaving signature."
}
func (c17) NumCases(tier string) int {
	if tier == "thorough" {
		return 1600
	}
	return 96
}
func (c17) Plan(tier string) []mon.RunSpec {
	lv, _ := mon.RunnableLevels()
	top := lv[len(lv)-1]
	raceLv := []int{0}
	if top != 0 {
		raceLv = append(raceLv, top)
	}
	if tier == "thorough" {
		return []mon.RunSpec{{Flavour: "plain"}, {Flavour: "race", Levels: raceLv, Shards: 4},
			// cold starts: 64 processes per level that run one case each
			{Flavour: "race", Levels: raceLv, Every: 25, Shards: 64}}
	}
	return []mon.RunSpec{{Flavour: "plain", Shards: 2}, {Flavour: "race", Levels: raceLv, Every: 3, Shards: 4},
		// cold starts: 20 processes per level that run one case each
		{Flavour: "race", Levels: raceLv, Every: 5, Shards: 20}}
}
func (c17) CaseCPUBudget(tier string) float64 {
	// a case uses 5-20 CPU-seconds (times ten under the race detector); the
	// budget only has to tell a spinning goroutine from a slow machine
	if tier == "thorough" {
		return 900
	}
	return 400
}
func (c17) Assumptions() []string {
	return []string{"memory accesses made by assembly are not instrumented by the race detector; a race confined to assembly is visible only through the digest comparison"}
}

// c17Clock stamps callback events. It must not synchronise the workloads with
// one another: a mutex or an atomic counter shared by all hooks would give the
// race detector a happens-before edge between any two workloads at every
// callback and hide races between them (it did, in an earlier version of this
// monitor). Each workload therefore appends monotonic time stamps to a slice of
// its own, and the slices are merged after all goroutines have been joined.
type c17Clock struct {
	t0     time.Time
	stamps [][]int64 // per workload: nanoseconds since t0 of its first callback events
	events []int32   // filled by merge: workload ids of the first events in time order
}

func newC17Clock(nw int) *c17Clock {
	return &c17Clock{t0: time.Now(), stamps: make([][]int64, nw)}
}

func (k *c17Clock) tick(id int) int64 {
	t := int64(time.Since(k.t0))
	if len(k.stamps[id]) < 64 {
		k.stamps[id] = append(k.stamps[id], t)
	}
	return t
}

// merge orders the recorded events of all workloads by time stamp.
func (k *c17Clock) merge() {
	type ev struct {
		t  int64
		id int32
	}
	var all []ev
	for id, st := range k.stamps {
		for _, t := range st {
			all = append(all, ev{t, int32(id)})
		}
	}
	sort.Slice(all, func(a, b int) bool { return all[a].t < all[b].t || (all[a].t == all[b].t && all[a].id < all[b].id) })
	if len(all) > 64 {
		all = all[:64]
	}
	for _, e := range all {
		k.events = append(k.events, e.id)
	}
}

// yield moves the preemption point: Gosched or a short spin, decided by the
// workload's own PRNG (deterministic per workload).
func c17Yield(r *gen.Rand) {
	switch r.Intn(4) {
	case 0:
		runtime.Gosched()
	case 1:
		n := r.Intn(2000)
		x := 0
		for i := 0; i < n; i++ {
			x += i
		}
		_ = x
	}
}

type c17Work struct {
	id    int
	kind  string
	seed  uint64
	param int // kind-specific size parameter shared by the workloads of a homogeneous case
}

// run executes the workload and returns its digest.
func (w c17Work) run(api *impl.API, clk *c17Clock) (digest string, start, end int64) {
	r := gen.New(w.seed)
	yr := gen.New(w.seed ^ 0xabcdef)
	h := sha256.New()
	hook := func() {
		if clk != nil {
			clk.tick(w.id)
		}
		c17Yield(yr)
	}
	if clk != nil {
		start = clk.tick(w.id)
	}
	note := func(tag string, b []byte, err error) {
		fmt.Fprintf(h, "%s:%d:%s:", tag, len(b), impl.ErrClass(err))
		h.Write(b)
	}
	pv, st := mon.Safe(func() {
		switch w.kind {
		case "compress", "compress-reset":
			s := Setting{Wrapper: []string{"flate", "flate", "gzip", "zlib"}[r.Intn(4)], Level: allLevels[r.Intn(len(allLevels))]}
			if r.Chance(2, 3) {
				s.Level = accelLevels[r.Intn(4)]
			}
			if s.Wrapper == "flate" {
				s.Win4K = r.Chance(1, 3)
			}
			sink := &Sink{Hook: hook}
			wr, err := NewWriter(api, s, sink)
			if err != nil {
				note("ctor", nil, err)
				return
			}
			rounds := 1
			if w.kind == "compress-reset" {
				rounds = 3
			}
			for k := 0; k < rounds; k++ {
				d := gen.RandomData(r, 120000)
				ops := gen.Schedule(r, len(d.B), gen.FlushPositions(r, len(d.B)), gen.PartitionStyles[r.Intn(4)])
				err := runOps(wr, d.B, ops)
				note("emit", sink.Buf.Bytes(), err)
				sink = &Sink{Hook: hook}
				wr.Reset(sink)
			}
		case "decode-fixed", "decode-dynamic", "decode-any":
			var st, plain []byte
			switch w.kind {
			case "decode-fixed":
				s := synth.NewStream(r)
				for b := 0; b < 4; b++ {
					s.Fixed(b == 3, synth.RandomTokens(r, len(s.Plain), r.Range(100, 30000), "mixed"), true)
				}
				st, plain = s.W.Bytes(), s.Plain
			case "decode-dynamic":
				st, plain, _ = synth.RandomValid(r, 100000)
			default:
				vs := streamNoFastgo(r, 150000)
				st, plain = vs.S, vs.Plain
			}
			cr := gen.New(w.seed + 1)
			src := &hookReader{r: &chunkReader{data: st, next: func() int { return cr.Range(1, 3000) }}, hook: hook}
			rd := api.NewFlateReader(src)
			out, err, _ := readAllSizes(rd, gen.ReadSizes(gen.New(w.seed+2), "random"), len(plain)+1<<20)
			note("dec", out, err)
			// reuse the reader on a second stream
			vs := streamNoFastgo(r, 20000)
			rd.Reset(&hookReader{r: bytes.NewReader(vs.S), hook: hook}, nil)
			out, err, _ = readAllSizes(rd, gen.ReadSizes(gen.New(w.seed+3), "random"), len(vs.Plain)+1<<20)
			note("dec2", out, err)
		case "compress-deep-tree":
			// steeply skewed symbol frequencies: the unrestricted Huffman tree is
			// deeper than the limit, so the length-limiting path of the code
			// generator runs for (almost) every block; many small blocks via Flush
			s := Setting{Wrapper: "flate", Level: []int{-2, 1, 2, -1}[r.Intn(4)], Win4K: r.Bool()}
			sink := &Sink{Hook: hook}
			wr, err := NewWriter(api, s, sink)
			if err != nil {
				note("ctor", nil, err)
				return
			}
			for k := 0; k < 12; k++ {
				d := gen.Make(r, []string{"fibexact", "fibexact", "fib"}[r.Intn(3)], r.Range(3000, 60000))
				_, err := wr.Write(d.B)
				if err == nil {
					err = wr.Flush()
				}
				note("blk", nil, err)
			}
			note("emit", sink.Buf.Bytes(), wr.Close())
		case "decode-close-reuse":
			// read, Close, Reset onto the next stream, read on: the pattern gzip
			// and zlib Readers apply to their inner flate Reader
			var rd impl.FlateReader
			for k := 0; k < 5; k++ {
				vs := streamNoFastgo(r, 60000)
				src := &hookReader{r: bytes.NewReader(vs.S), hook: hook}
				if rd == nil || k == 3 {
					rd = api.NewFlateReader(src)
				} else {
					rd.Reset(src, nil)
				}
				out, err, _ := readAllSizes(rd, gen.ReadSizes(gen.New(w.seed+uint64(k)), "random"), len(vs.Plain)+1<<20)
				note("dec", out, err)
				fmt.Fprintf(h, "equal=%v", bytes.Equal(out, vs.Plain))
				rd.Close()
			}
		case "gzip-close-reuse":
			var z impl.GzipReader
			for k := 0; k < 4; k++ {
				d := gen.RandomData(r, 60000)
				cont := encodeStdGzip(d.B, r.Pick(1, 6))
				src := &hookReader{r: bytes.NewReader(cont), hook: hook}
				var err error
				if z == nil {
					z, err = api.NewGzipReader(src)
				} else {
					err = z.Reset(src)
				}
				if err != nil {
					note("gzctor", nil, err)
					return
				}
				out, e := io.ReadAll(z)
				note("gz", out, e)
				fmt.Fprintf(h, "equal=%v", bytes.Equal(out, d.B))
				z.Close()
			}
		case "gzip-headers":
			// several members with non-ASCII Name/Comment and large Extra fields,
			// written and read back in default multistream mode
			var b bytes.Buffer
			sink := &hookWriter{w: &b, hook: hook}
			var want []byte
			for k := 0; k < 3; k++ {
				z, err := api.NewGzipWriterLevel(sink, accelLevels[r.Intn(4)])
				if err != nil {
					note("ctor", nil, err)
					return
				}
				hd := randHeader(r)
				hd.Name = latin1(r, r.Range(1, 40))
				hd.Comment = latin1(r, r.Range(1, 40))
				hd.Extra = r.Bytes(r.Pick(0, 10, 513, 600, 2000))
				z.SetHeader(hd)
				d := gen.RandomData(r, 20000)
				z.Write(d.B)
				z.Close()
				want = append(want, d.B...)
			}
			note("gzh", b.Bytes(), nil)
			rd, err := api.NewGzipReader(&hookReader{r: bytes.NewReader(b.Bytes()), hook: hook})
			if err != nil {
				note("rdctor", nil, err)
				return
			}
			hh := rd.Header()
			fmt.Fprintf(h, "hdr=%q|%q|%x", hh.Name, hh.Comment, hh.Extra)
			out, e := io.ReadAll(rd)
			note("rt", out, e)
			fmt.Fprintf(h, "equal=%v", bytes.Equal(out, want))
		case "decode-malformed":
			for k := 0; k < 6; k++ {
				f := synth.Faults[r.Intn(len(synth.Faults))]
				st, _, _ := synth.Faulty(r, f, r.Pick(0, 1, 3))
				st = append(st, make([]byte, 40)...)
				rd := api.NewFlateReader(&hookReader{r: bytes.NewReader(st), hook: hook})
				out, err, _ := readAllSizes(rd, gen.ReadSizes(gen.New(w.seed+uint64(k)), "random"), 8<<20)
				note("bad", out, err)
			}
		case "token-cap":
			// fresh Writers whose pending-token count is 32765 or 32766 when the
			// match finder is entered again (it then takes its portable fallback
			// although the assembly is selected): a zero run of K bytes in front of
			// incompressible data, K swept across the values at which that happens
			// for the setting (found by counting calls of that branch)
			type tc struct {
				s      Setting
				centre int
			}
			v := []tc{{Setting{Wrapper: "flate", Level: 1, Win4K: true}, 3880}, {Setting{Wrapper: "flate", Level: 2, Win4K: true}, 4120},
				{Setting{Wrapper: "flate", Level: 1}, 268}, {Setting{Wrapper: "flate", Level: 2}, 282}, {Setting{Wrapper: "flate", Level: -1}, 282}}[r.Intn(5)]
			total := 70000
			if v.s.Win4K {
				total = 40000
			}
			d := make([]byte, total)
			for K := v.centre - 7; K <= v.centre+7; K++ {
				for j := 0; j < K; j++ {
					d[j] = 0
				}
				r.Fill(d[K:])
				sink := &Sink{Hook: hook}
				wr, err := NewWriter(api, v.s, sink)
				if err != nil {
					note("ctor", nil, err)
					return
				}
				wr.Write(d)
				note("tc", sink.Buf.Bytes(), wr.Close())
			}
		case "zlib-dict":
			// many short streams against one preset dictionary per workload; the
			// dictionaries of different workloads have the same length (param) and
			// different contents
			n := w.param
			if n == 0 {
				n = r.Pick(4096, 8192, 32768)
			}
			dict := gen.Make(r, "text", n).B
			if len(dict) > n {
				dict = dict[:n]
			}
			for k := 0; k < 40; k++ {
				msg := gen.Make(r, "text", r.Range(1, 300)).B
				var b bytes.Buffer
				z, err := api.NewZlibWriterLevelDict(&hookWriter{w: &b, hook: hook}, accelLevels[r.Intn(4)], dict)
				if err != nil {
					note("ctor", nil, err)
					return
				}
				z.Write(msg)
				note("zd", b.Bytes(), z.Close())
				rd, err := api.NewZlibReaderDict(&hookReader{r: bytes.NewReader(b.Bytes()), hook: hook}, dict)
				if err != nil {
					note("rdctor", nil, err)
					continue
				}
				out, e := io.ReadAll(rd)
				note("zr", out, e)
				// the same Reader and Writer again, through Reset
				b2 := &bytes.Buffer{}
				z.Reset(b2)
				z.Write(msg)
				note("zd2", b2.Bytes(), z.Close())
				e = rd.Reset(bytes.NewReader(b2.Bytes()), dict)
				if e == nil {
					out, e = io.ReadAll(rd)
				}
				note("zr2", out, e)
			}
		case "gzip-roundtrip", "zlib-roundtrip":
			d := gen.RandomData(r, 100000)
			var b bytes.Buffer
			sink := &hookWriter{w: &b, hook: hook}
			lvl := accelLevels[r.Intn(4)]
			var rd io.Reader
			var err error
			if w.kind == "gzip-roundtrip" {
				z, _ := api.NewGzipWriterLevel(sink, lvl)
				z.Write(d.B)
				z.Close()
				note("gz", b.Bytes(), nil)
				rd, err = api.NewGzipReader(&hookReader{r: bytes.NewReader(b.Bytes()), hook: hook})
			} else {
				z, _ := api.NewZlibWriterLevel(sink, lvl)
				z.Write(d.B)
				z.Close()
				note("zl", b.Bytes(), nil)
				rd, err = api.NewZlibReader(&hookReader{r: bytes.NewReader(b.Bytes()), hook: hook})
			}
			if err != nil {
				note("rdctor", nil, err)
				return
			}
			out, e := io.ReadAll(rd)
			note("rt", out, e)
			fmt.Fprintf(h, "equal=%v", bytes.Equal(out, d.B))
		}
	})
	if pv != nil {
		fmt.Fprintf(h, "PANIC %v %s", pv, st)
		digest = "panic:" + fmt.Sprint(pv) + " at " + st
	}
	if clk != nil {
		end = clk.tick(w.id)
	}
	if digest == "" {
		digest = hex.EncodeToString(h.Sum(nil)[:12])
	}
	return
}

type hookReader struct {
	r    io.Reader
	hook func()
}

func (h *hookReader) Read(p []byte) (int, error) { h.hook(); return h.r.Read(p) }

type hookWriter struct {
	w    io.Writer
	hook func()
}

func (h *hookWriter) Write(p []byte) (int, error) { h.hook(); return h.w.Write(p) }

// c17First is true until the process has run its first case.
var c17First = true

var c17Kinds = []string{"compress", "compress-reset", "decode-fixed", "decode-dynamic", "decode-any", "decode-malformed", "gzip-roundtrip", "zlib-roundtrip",
	"compress-deep-tree", "compress-deep-tree", "decode-close-reuse", "decode-close-reuse", "gzip-close-reuse", "gzip-headers", "gzip-headers", "zlib-dict", "token-cap"}

// c17Distinct is c17Kinds without repetitions.
var c17Distinct = func() (d []string) {
	seen := map[string]bool{}
	for _, k := range c17Kinds {
		if !seen[k] {
			seen[k] = true
			d = append(d, k)
		}
	}
	return
}()

// kinds used for homogeneous cases (every workload of the case is of one kind,
// so that all goroutines contend on the same code paths and shared state)
var c17Homog = []string{"zlib-dict", "decode-dynamic", "compress", "token-cap", "zlib-dict", "decode-fixed", "compress-deep-tree", "decode-malformed", "token-cap", "gzip-roundtrip"}

func (c17) Run(c *mon.Ctx, i int) {
	r := c.R
	G := []int{2, 8, 32, 128}[i%4]
	procs := []int{1, 2, 4, 16}[(i/4)%4]
	nw := G
	if nw < 8 {
		nw = 8
	}
	if nw > 64 {
		nw = 64
	}
	if c.Flavour == "race" && nw > 24 {
		nw = 24
	}
	// the first case a process runs is its cold start: make it wide (every kind
	// of workload at least twice, side by side) unless it is a homogeneous case
	cold := c17First && i%3 != 2
	if cold {
		nw = 2 * len(c17Distinct)
		if G < 8 {
			G = 8
		}
		if procs < 2 {
			procs = 2
		}
	}
	works := make([]c17Work, nw)
	homog := ""
	if i%3 == 2 {
		// (i/3)%8 walks the kinds; i%4 and (i/4)%4 still walk G and GOMAXPROCS
		homog = c17Homog[(i/3)%len(c17Homog)]
	}
	hparam := []int{4096, 32768, 8192}[(i/24)%3]
	for k := range works {
		works[k] = c17Work{id: k, kind: c17Kinds[r.Intn(len(c17Kinds))], seed: r.U64()}
		if homog != "" {
			works[k].kind = homog
			works[k].param = hparam
		}
		if cold {
			works[k].kind = c17Distinct[(k/2)%len(c17Distinct)]
		}
	}
	// The concurrent run comes first and the one-goroutine reference run second:
	// the first case a process executes then starts its goroutines cold, with
	// nothing in the package initialised lazily by an earlier sequential pass,
	// which is how a server's first parallel requests meet the package.
	old := runtime.GOMAXPROCS(procs)
	clk := newC17Clock(nw)
	conc := make([]string, nw)
	starts := make([]int64, nw)
	ends := make([]int64, nw)
	var wg sync.WaitGroup
	sem := make(chan struct{}, G)
	gate := make(chan struct{})
	for k := range works {
		wg.Add(1)
		go func(k int) {
			defer wg.Done()
			<-gate
			sem <- struct{}{}
			conc[k], starts[k], ends[k] = works[k].run(c.API, clk)
			<-sem
		}(k)
	}
	close(gate)
	wg.Wait()
	clk.merge()
	runtime.GOMAXPROCS(old)
	// sequential reference digests, one goroutine
	seq := make([]string, nw)
	for k, w := range works {
		seq[k], _, _ = w.run(c.API, nil)
	}
	c.Eval(2 * nw)
	desc := map[string]interface{}{"goroutines": G, "GOMAXPROCS": procs, "workloads": nw}
	for k := range works {
		if conc[k] != seq[k] {
			desc["workload_kind"] = works[k].kind
			desc["workload_seed"] = works[k].seed
			desc["sequential_digest"] = seq[k]
			desc["concurrent_digest"] = conc[k]
			c.Violate("concurrent-result-differs|"+works[k].kind, fmt.Sprintf("workload %d (%s) run concurrently with %d others (GOMAXPROCS %d) produced %s; alone it produces %s", k, works[k].kind, nw-1, procs, conc[k], seq[k]), desc)
			return
		}
	}
	// overlap actually observed
	pairs := 0
	for a := 0; a < nw; a++ {
		for b := a + 1; b < nw; b++ {
			if starts[a] < ends[b] && starts[b] < ends[a] {
				pairs++
			}
		}
	}
	c.Count("workload-executions-compared", nw)
	c.Count("overlapping-workload-pairs", pairs)
	c.Count(fmt.Sprintf("cases G=%d procs=%d", G, procs), 1)
	for _, w := range works {
		c.Count("kind:"+w.kind, 1)
	}
	if homog != "" {
		c.Count("homogeneous-cases:"+homog, 1)
	}
	if c17First {
		c17First = false
		c.Count("cold-start-cases (first case of a process, concurrent before any sequential pass)", 1)
	}
	if pairs > 0 {
		c.Count("cases-with-overlap", 1)
		c.Nontrivial(fmt.Sprint(clk.events), G, procs)
	} else {
		c.Count("cases-without-overlap", 1)
	}
	if i%7 == 0 {
		desc["overlapping_pairs"] = pairs
		desc["first_events"] = fmt.Sprint(clk.events)
		c.Sample(desc)
	}
}

func (c17) Offline(j *mon.Joined) {
	if j.Counters["overlapping-workload-pairs"] == 0 {
		j.Inconclusive = append(j.Inconclusive, "no two workloads ever overlapped: nothing concurrent was observed")
	}
}
