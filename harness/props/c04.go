package props

import (
	"bytes"
	"fmt"
	"io"

	"fgverif/gen"
	"fgverif/impl"
	"fgverif/mon"
	"fgverif/refinf"
	"fgverif/synth"
)

// C04 — decoded output does not depend on how the compressed bytes arrive or
// are read.
type c04 struct{}

func init() { register(c04{}) }

func (c04) ID() string            { return "C04" }
func (c04) EvidenceLevel() string { return "exploration" }
func (c04) Rule() string {
	return "case = one stream (valid, or a valid stream cut at a byte) x a set of delivery/read schedules: source chunking {1 byte per call, random short reads, one split at k (every k for streams <= 600 bytes), data together with io.EOF} x transport {none, bufio of 16,17,64,328,329,4095,4096,4097,64K,1M, handed to NewReader or to Reset} x destination sizes {1,2,7,random,64K}. Every schedule must produce the same bytes and the same final error as the all-at-once baseline. Non-trivial: the stream decodes to at least one byte or is truncated; distinct by (stream digest, schedule). Every 14th case adds a truncation sweep: word salad whose separators are 0x00/0x01/0xff, sixteen cut points, each read whole, byte by byte and in random chunks. Match-edge cases add three more synthesised streams each (most with a packed literal(s)+match entry ending one or two bytes beyond the 64 KiB window), every one in every plain two-piece delivery."
}
func (c04) NumCases(tier string) int {
	if tier == "thorough" {
		return 12000
	}
	return 700
}
func (c04) Assumptions() []string {
	return []string{"the all-at-once baseline is tied to compress/flate by C02/C03; C04 itself only decides invariance"}
}

type c04Sched struct {
	chunk  string // whole, onebyte, random, split, dataeof, zones, tiny
	zones  []int  // byte offsets around which the source delivers one byte per read
	split  int
	bufio  int // 0 = none
	viaRst bool
	dst    string
}

func (s c04Sched) String() string {
	return fmt.Sprintf("chunk=%s split=%d bufio=%d reset=%v dst=%s", s.chunk, s.split, s.bufio, s.viaRst, s.dst)
}

var c04Bufios = []int{0, 16, 17, 64, 328, 329, 4095, 4096, 4097, 65536, 1 << 20}

func c04Run(api *impl.API, r *gen.Rand, in []byte, s c04Sched, limit int) readRun {
	data := append([]byte(nil), in...)
	var src io.Reader
	switch s.chunk {
	case "whole":
		src = bytes.NewReader(data)
	case "onebyte":
		src = &chunkReader{data: data, next: func() int { return 1 }}
	case "random":
		src = &chunkReader{data: data, next: func() int {
			switch r.Intn(4) {
			case 0:
				return 1
			case 1:
				return r.Range(1, 8)
			case 2:
				return r.Range(1, 400)
			}
			return r.Range(1, 6000)
		}}
	case "split":
		first := true
		k := s.split
		src = &chunkReader{data: data, next: func() int {
			if first {
				first = false
				if k < 1 {
					return 1 << 30
				}
				return k
			}
			return 1 << 30
		}}
	case "dataeof":
		src = &chunkReader{data: data, next: func() int { return r.Range(1, 5000) }, dataWithEOF: true}
	case "tiny":
		k := s.split
		src = &chunkReader{data: data, next: func() int { return k }}
	case "zones":
		// everything up to 20 bytes before a zone centre in one read, then one
		// byte per read until past it, and so on for each zone. fastgo's own
		// roll-over positions drift to the right by the carried-over bytes of each
		// earlier roll-over, so later zones are wider.
		pos := 0
		zi := 0
		zs := s.zones
		step := s.split
		if step < 1 {
			step = 1
		}
		src = &chunkReader{data: data, next: func() int {
			for zi < len(zs) && pos > zs[zi]+40+120*zi {
				zi++
			}
			n := 1 << 30
			if zi < len(zs) {
				if pos < zs[zi]-20 {
					n = zs[zi] - 20 - pos
				} else {
					n = step
				}
			}
			if n > len(data)-pos {
				n = len(data) - pos
			}
			pos += n
			return n
		}}
	}
	if s.bufio > 0 {
		src = bufioOf(src, s.bufio)
	}
	var rd impl.FlateReader
	if s.viaRst {
		rd = api.NewFlateReader(bytes.NewReader(nil))
		if pv, st := mon.Safe(func() { rd.Reset(src, nil) }); pv != nil {
			return readRun{panicV: pv, stack: st}
		}
	} else {
		rd = api.NewFlateReader(src)
	}
	return drain(rd, gen.ReadSizes(r, s.dst), limit)
}

func (c04) Run(c *mon.Ctx, i int) {
	r := c.R
	var vs *ValidStream
	edge := false // a match-edge stream: every split also with the plain two-piece source
	switch i % 7 {
	case 0:
		// long dynamic header right at the start and again later
		s := synth.NewStream(r)
		for b := 0; b < 2; b++ {
			toks := synth.RandomTokens(r, len(s.Plain), r.Range(0, 200), "mixed")
			lit, dist := synth.LengthsFor(r, toks, synth.CodeOpts{MaxLit: 15, MaxDist: 15, ExtraLit: 285, ExtraDist: 29, FullHLIT: true, Shape: "random"})
			sp := synth.NewDynSpec()
			sp.LitLens, sp.DistLens, sp.RLE, sp.NoTrim, sp.CLShape = lit, dist, "none", true, "flat"
			s.Dynamic(b == 1, toks, sp, true)
		}
		vs = &ValidStream{S: s.W.Bytes(), Plain: s.Plain, Desc: "synth-long-headers"}
	case 1:
		// output crossing the 64 KiB history wrap inside long copies, stored blocks straddling refills
		s := synth.NewStream(r)
		s.Stored(false, r.Bytes(r.Range(60000, 65535)))
		var toks []synth.Token
		for n := 0; n < 80000; {
			l := r.Pick(258, 258, 257, 200, 3)
			toks = append(toks, synth.Match(l, r.Pick(1, 2, 258, 4096, 32768, 30000)))
			n += l
		}
		s.Fixed(false, toks, true)
		s.Stored(true, r.Bytes(r.Range(0, 9000)))
		vs = &ValidStream{S: s.W.Bytes(), Plain: s.Plain, Desc: "synth-history-wrap"}
	case 4:
		// (delta, j) enumerated: 4 x 4 combinations, each several times per tier
		st, plain, d := synth.WindowEdge(r, (i/7)%4, (i/28)%4+1, r.Pick(0, 0, 0, 1), r.Chance(1, 4), r.Chance(1, 5))
		// more input behind it, so that a final tiny block still gets the
		// multi-symbol table when everything is delivered at once
		vs = &ValidStream{S: st, Plain: plain, Desc: "synth " + d}
	case 5:
		// large word-salad text: single literals and short matches alternate, so
		// packed literal+match table entries are everywhere, several history
		// roll-overs per stream
		n := r.Range(70000, 400000)
		d := wordSalad(r, n)
		v, err := encodeWith(impl.Stdlib, Setting{Wrapper: "flate", Level: r.Pick(1, 3, 6, 9)}, d, nil)
		if err != nil {
			panic(err)
		}
		vs = v
		vs.Desc = "word-salad " + vs.Desc
	case 2:
		// the longest possible dynamic header, small enough for every split point
		st, plain, d := synth.MaxHeader(r, r.Pick(0, 0, 1, 5, 37), r.Bool())
		vs = &ValidStream{S: st, Plain: plain, Desc: "synth " + d}
		if i%14 != 2 {
			vs = RandomValidStream(r, 3000)
		}
	case 3:
		vs = RandomValidStream(r, 3000) // small: every split point
		if i%14 == 3 || i%28 == 10 {
			// a packed literal(s)+long-match entry starting 258+delta bytes before the
			// window is full; the stream is small, so every split point is tried
			// ((delta, literals) enumerated, match length and window index alternate)
			st, plain, d := synth.MatchEdge(r, (i/14)%4, (i/56)%3, []int{258, 257, 258}[(i/168)%3], []int{0, 0, 1}[(i/7)%3])
			vs = &ValidStream{S: st, Plain: plain, Desc: "synth " + d}
			edge = true
		}
	default:
		vs = RandomValidStream(r, 150000)
	}
	in := vs.S
	truncated := false
	if r.Chance(1, 3) && len(in) > 1 && !edge {
		in = in[:r.Intn(len(in))]
		truncated = true
	}
	limit := len(vs.Plain) + 1<<20
	base := c04Run(c.API, r, in, c04Sched{chunk: "whole", dst: "64k"}, limit)
	c.Eval(1)
	desc := map[string]interface{}{"stream": vs.Desc, "stream_sha": mon.Sha(in), "stream_len": len(in), "truncated": truncated, "plain_len": len(vs.Plain)}
	if len(in) <= 1500 {
		desc["stream_hex"] = mon.Hex(in, 1500)
	}
	if base.panicV != nil {
		desc["stack"] = base.stack
		c.Violate("panic|"+mon.PanicSite(base.stack), fmt.Sprintf("baseline read panicked: %v", base.panicV), desc)
		return
	}
	if i%14 == 6 {
		// truncation sweep over word salad whose separators are the byte values
		// 0x00, 0x01 and 0xff (values a "none" marker could be confused with):
		// sixteen cut points, each read whole, byte by byte and in random chunks
		n := r.Range(3000, 40000)
		d := wordSaladAlpha(r, n, r.Pick(3, 4, 5))
		for j := range d {
			switch d[j] {
			case ' ', '.':
				d[j] = 0x00
			case ',':
				d[j] = 0x01
			case ';':
				d[j] = 0xff
			}
		}
		v, err := encodeWith(impl.Stdlib, Setting{Wrapper: "flate", Level: r.Pick(1, 6, 6, 9)}, d, nil)
		if err != nil {
			panic(err)
		}
		for t := 0; t < 16 && len(v.S) > 2; t++ {
			cut := v.S[:r.Range(1, len(v.S)-1)]
			b0 := c04Run(c.API, r, cut, c04Sched{chunk: "whole", dst: "64k"}, len(d)+1<<20)
			for _, sc := range []c04Sched{{chunk: "onebyte", dst: "64k"}, {chunk: "random", bufio: 64, dst: "random"}, {chunk: "whole", bufio: 4096, viaRst: true, dst: "7"}} {
				rr := c04Run(c.API, r, cut, sc, len(d)+1<<20)
				c.Eval(1)
				if rr.panicV != nil || b0.panicV != nil || !bytes.Equal(rr.out, b0.out) || impl.ErrClass(rr.err) != impl.ErrClass(b0.err) {
					d2 := map[string]interface{}{"stream": "zero-separator word salad " + v.Desc, "stream_sha": mon.Sha(cut), "stream_len": len(cut), "truncated": true, "schedule": sc.String(),
						"baseline": fmt.Sprintf("%d bytes, err=%v", len(b0.out), b0.err), "got": fmt.Sprintf("%d bytes, err=%v", len(rr.out), rr.err)}
					if len(cut) <= 1500 {
						d2["stream_hex"] = mon.Hex(cut, 1500)
					}
					c.Violate(fmt.Sprintf("bytes-differ|chunk=%s|bufio=%s|reset=%v", sc.chunk, bufClass(sc.bufio), sc.viaRst), fmt.Sprintf("truncated stream (%d of %d bytes): schedule %s yields %d bytes then %v, whole delivery %d bytes then %v (first difference at %d)", len(cut), len(v.S), sc, len(rr.out), rr.err, len(b0.out), b0.err, firstDiff(rr.out, b0.out)), d2)
					return
				}
			}
			c.Count("truncation-sweep-cuts-agreeing", 1)
		}
		c.Count("truncation-sweep-cases", 1)
	}
	if edge {
		// further match-edge streams, most of them with an entry that ends one or
		// two bytes beyond the window (literals + match longer than the room left),
		// each in every plain two-piece delivery
		over := [][3]int{{0, 1, 258}, {0, 2, 258}, {0, 2, 257}, {1, 2, 258}, {0, 1, 258}, {1, 1, 258}, {2, 2, 258}, {0, 0, 258}}
		for t := 0; t < 3; t++ {
			pr := over[(i/7*3+t)%len(over)]
			st, plain, d := synth.MatchEdge(r, pr[0], pr[1], pr[2], []int{0, 1, 0, 0}[(i/7+t)%4])
			b0 := c04Run(c.API, r, st, c04Sched{chunk: "whole", dst: "64k"}, len(plain)+1<<20)
			for k := 1; k < len(st); k++ {
				sc := c04Sched{chunk: "split", split: k, dst: "64k"}
				rr := c04Run(c.API, r, st, sc, len(plain)+1<<20)
				c.Eval(1)
				if rr.panicV != nil || b0.panicV != nil || !bytes.Equal(rr.out, b0.out) || impl.ErrClass(rr.err) != impl.ErrClass(b0.err) {
					d2 := map[string]interface{}{"stream": "synth " + d, "stream_sha": mon.Sha(st), "stream_len": len(st), "stream_hex": mon.Hex(st, 1500), "schedule": sc.String(),
						"baseline": fmt.Sprintf("%d bytes, err=%v", len(b0.out), b0.err), "got": fmt.Sprintf("%d bytes, err=%v", len(rr.out), rr.err)}
					if rr.panicV != nil {
						d2["stack"] = rr.stack
						c.Violate("panic|"+mon.PanicSite(rr.stack), fmt.Sprintf("Reader panicked under schedule %s: %v", sc, rr.panicV), d2)
						return
					}
					c.Violate("bytes-differ|chunk=split|bufio=none|reset=false", fmt.Sprintf("%s: schedule %s yields %d bytes then %v, whole delivery %d bytes then %v", d, sc, len(rr.out), rr.err, len(b0.out), b0.err), d2)
					return
				}
			}
			c.Count("match-edge-streams-in-every-two-piece-split", 1)
		}
	}
	var scheds []c04Sched
	if len(in) <= 700 {
		for k := 1; k < len(in); k++ {
			scheds = append(scheds, c04Sched{chunk: "split", split: k, bufio: c04Bufios[r.Intn(len(c04Bufios))], viaRst: r.Bool(), dst: pickDst(r)})
			if edge {
				// no bufio in between (the first piece reaches the Reader whole, so
				// its fast loop runs up to the split), large destination
				scheds = append(scheds, c04Sched{chunk: "split", split: k, dst: "64k"})
			}
		}
	}
	// history roll-overs: where in the compressed stream does the output cross
	// 64 KiB and every further 32 KiB? One-byte delivery around those points
	// makes every input boundary coincide with the window becoming full.
	if len(vs.Plain) > 65536 && !truncated {
		var marks []int
		for m := 65536; m < len(vs.Plain); m += 32768 {
			marks = append(marks, m)
		}
		res := refinf.Inflate(in, refinf.Options{Marks: marks, KeepBlocks: 1})
		var zones []int
		for _, b := range res.MarkBits {
			zones = append(zones, int(b/8))
		}
		if len(zones) > 0 {
			for k, bsz := range []int{0, 4096, 65536, 0, 64} {
				scheds = append(scheds, c04Sched{chunk: "zones", zones: zones, split: []int{1, 2, 3, 5, 2}[k], bufio: bsz, viaRst: r.Bool(), dst: "64k"})
			}
			scheds = append(scheds, c04Sched{chunk: "tiny", split: 2, dst: "64k"}, c04Sched{chunk: "tiny", split: 3, bufio: 4096, dst: "random"})
			c.Count("streams-with-rollover-zone-schedules", 1)
			c.Count("rollover-zones", len(zones))
		}
	}
	n := 14
	if c.Tier == "thorough" {
		n = 40
	}
	for k := 0; k < n; k++ {
		s := c04Sched{chunk: []string{"whole", "onebyte", "random", "split", "dataeof"}[r.Intn(5)], bufio: c04Bufios[r.Intn(len(c04Bufios))], viaRst: r.Bool(), dst: pickDst(r)}
		if s.chunk == "split" && len(in) > 0 {
			s.split = r.Intn(len(in))
		}
		if len(vs.Plain) > 30000 && (s.dst == "1" || s.dst == "2") {
			s.dst = "7"
		}
		scheds = append(scheds, s)
	}
	for _, s := range scheds {
		if s.dst == "" {
			s.dst = pickDst(r)
		}
		rr := c04Run(c.API, r, in, s, limit)
		c.Eval(1)
		d2 := map[string]interface{}{"schedule": s.String(), "baseline": fmt.Sprintf("%d bytes, err=%v", len(base.out), base.err), "got": fmt.Sprintf("%d bytes, err=%v", len(rr.out), rr.err)}
		for k, v := range desc {
			d2[k] = v
		}
		shape := fmt.Sprintf("chunk=%s|bufio=%s|reset=%v", s.chunk, bufClass(s.bufio), s.viaRst)
		switch {
		case rr.panicV != nil:
			d2["stack"] = rr.stack
			c.Violate("panic|"+mon.PanicSite(rr.stack), fmt.Sprintf("Reader panicked under schedule %s: %v", s, rr.panicV), d2)
		case rr.bad != "":
			c.Violate("read-contract|"+shape, rr.bad, d2)
		case !bytes.Equal(rr.out, base.out):
			c.Violate("bytes-differ|"+shape, fmt.Sprintf("schedule %s yields %d bytes, baseline %d (first difference at %d)", s, len(rr.out), len(base.out), firstDiff(rr.out, base.out)), d2)
		case rr.err != base.err && impl.ErrClass(rr.err) != impl.ErrClass(base.err):
			c.Violate("error-differs|"+shape+"|"+errKind(base.err)+"->"+errKind(rr.err), fmt.Sprintf("schedule %s ends in %v, baseline in %v", s, rr.err, base.err), d2)
		}
		if c.Violated() {
			return
		}
		c.Count("schedules-agreeing", 1)
		c.Count("chunk:"+s.chunk, 1)
		c.Count(fmt.Sprintf("bufio:%d", s.bufio), 1)
		if len(base.out) > 0 || truncated {
			c.Nontrivial(in, s.String())
		}
	}
	c.Count("baseline:"+errKind(base.err), 1)
	if i%41 == 0 {
		desc["schedules"] = len(scheds)
		desc["example_schedule"] = scheds[len(scheds)-1].String()
		c.Sample(desc)
	}
}

func pickDst(r *gen.Rand) string {
	return []string{"1", "2", "7", "random", "64k", "random"}[r.Intn(6)]
}

func bufClass(n int) string {
	switch {
	case n == 0:
		return "none"
	case n < 4096:
		return "<4096"
	default:
		return ">=4096"
	}
}

// wordSalad: random words over a random alphabet separated by punctuation.
func wordSalad(r *gen.Rand, n int) []byte {
	return wordSaladAlpha(r, n, r.Pick(3, 4, 4, 5, 8, r.Range(2, 60)))
}

// wordSaladAlpha: the same over an alphabet of alpha letters (small alphabets
// give 2-4-bit literal codes, so literal+match pairs fit the decoder's packed
// table entries).
func wordSaladAlpha(r *gen.Rand, n, alpha int) []byte {
	nw := r.Range(5, 200)
	words := make([][]byte, nw)
	for i := range words {
		w := make([]byte, r.Range(3, 8))
		for j := range w {
			w[j] = byte('a' + r.Intn(alpha))
		}
		words[i] = w
	}
	out := make([]byte, 0, n+16)
	for len(out) < n {
		out = append(out, words[r.Intn(nw)]...)
		out = append(out, " .,;:!?-"[r.Intn(8)])
	}
	return out[:n]
}
