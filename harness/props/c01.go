package props

import (
	"bytes"
	"fmt"

	"fgverif/gen"
	"fgverif/impl"
	"fgverif/mon"
)

// C01 — compress then decompress returns the input, for every setting and
// call pattern.
type c01 struct{}

func init() { register(c01{}) }

func (c01) ID() string            { return "C01" }
func (c01) EvidenceLevel() string { return "exploration" }
func (c01) Rule() string {
	return "case = (setting, data, Write/Flush schedule) drawn from the seeded families plus a fixed core list of roll-over sizes; every op must succeed on a never-failing destination, then the emitted bytes must be one complete stream for the strict reference inflater (ending exactly at the last emitted byte) and decode to the data with the reference, compress/flate and fastgo's Reader; red zones checked after every call. Non-trivial: non-empty data on a setting served by fastgo's own compressor; distinct by (setting, data digest, schedule)."
}

var c01Sweep = []string{"uniform", "alpha2", "alpha16", "text", "equal", "runs"}

type c01Layout struct{ core, random, sweepSmall, sweepRoll, tokenCap, chunk int }

// token-cap sweep: number of incompressible bytes (one token each) before a long run
var c01CapLens = func() []int {
	var v []int
	for l := 32700; l <= 32800; l++ {
		v = append(v, l)
	}
	for l := 65300; l <= 65560; l++ {
		v = append(v, l)
	}
	return v
}()

func c01Lay(tier string) c01Layout {
	if tier == "thorough" {
		return c01Layout{core: 8 * len(gen.BoundarySizes) * 2, random: 40000, sweepSmall: 1201 * 6 * 4 * 2, sweepRoll: 98 * 2 * 4 * 3, tokenCap: len(c01CapLens) * 8 * 3, chunk: 8 * 4 * 3 * 4}
	}
	return c01Layout{core: 8 * len(gen.BoundarySizes), random: 6000, sweepSmall: 0, sweepRoll: 98 * 2 * 2, tokenCap: len(c01CapLens) * 8, chunk: 8 * 4 * 2}
}

func (c01) NumCases(tier string) int {
	l := c01Lay(tier)
	return l.core + l.random + l.sweepSmall + l.sweepRoll + l.tokenCap + l.chunk
}

func (c01) Plan(tier string) []mon.RunSpec {
	if tier == "thorough" {
		return []mon.RunSpec{{Flavour: "plain"}, {Flavour: "checkptr"}, {Flavour: "race", Every: 20}, {Flavour: "asan", Every: 40}}
	}
	return []mon.RunSpec{{Flavour: "plain"}, {Flavour: "checkptr", Every: 2}}
}

func (c01) Assumptions() []string {
	return []string{
		"compress/flate of the installed Go distribution and the harness's reference inflater are correct decoders (they are cross-checked against each other on every case)",
		"assembly stores outside the Writer's guarded slices are visible only through their effects",
	}
}

var accelSettings = []Setting{
	{Wrapper: "flate", Level: 1}, {Wrapper: "flate", Level: 2}, {Wrapper: "flate", Level: -1}, {Wrapper: "flate", Level: -2},
	{Wrapper: "flate", Level: 1, Win4K: true}, {Wrapper: "flate", Level: 2, Win4K: true}, {Wrapper: "flate", Level: -1, Win4K: true}, {Wrapper: "flate", Level: -2, Win4K: true},
}

func c01Case(tier string, i int, r *gen.Rand) (s Setting, d gen.Data, ops []gen.Op, kind string) {
	l := c01Lay(tier)
	switch {
	case i == 0:
		// probe of the listed finding (delegated dictionary writer): small
		// dictionary, incompressible data, level 9
		s = Setting{Wrapper: "flate", Level: 9, Dict: r.Bytes(29)}
		d = gen.Make(r, "uniform", 5287)
		ops = []gen.Op{{Kind: "write", N: 4260}, {Kind: "flush"}, {Kind: "write", N: 1027}, {Kind: "close"}}
		kind = "probe-dict-writer"
	case i < l.core:
		s = accelSettings[i%8]
		size := gen.BoundarySizes[(i/8)%len(gen.BoundarySizes)]
		fam := []string{"text", "uniform", "alpha4", "runs", "farcopy", "equal", "fibexact", "mixed"}[(i/8+i)%8]
		d = gen.Make(r, fam, size)
		style := gen.PartitionStyles[r.Intn(4)]
		if size <= 20000 && r.Chance(1, 6) {
			style = "bytes"
		}
		ops = gen.Schedule(r, size, gen.FlushPositions(r, size), style)
		kind = "core"
	case i < l.core+l.random:
		s = RandomFlateSetting(r)
		max := 0
		if s.Level > 2 || s.Level == 0 {
			max = 150000
		}
		d = gen.RandomData(r, max)
		if s.Dict != nil && r.Bool() {
			d = gen.Data{Desc: fmt.Sprintf("dict-slices/%d", len(d.B)), B: dictSlices(r, s.Dict, len(d.B))}
		}
		style := gen.PartitionStyles[r.Intn(4)]
		if len(d.B) <= 20000 && r.Chance(1, 8) {
			style = "bytes"
		}
		ops = gen.Schedule(r, len(d.B), gen.FlushPositions(r, len(d.B)), style)
		kind = "random"
		if i%40 == 31 || i%40 == 5 {
			// far copies with long distance extra bits and long literal codes: wide
			// tokens, which stress the lane budgets of the SIMD token packers
			s = accelSettings[(i/40)%8]
			if s.Level == -2 {
				s.Level = 1
			}
			d = gen.Make(r, []string{"farcopy3", "farcopy2", "farcopy", "sparsematch", "farcopy3"}[r.Intn(5)], r.Range(40000, 200000))
			ops = gen.Schedule(r, len(d.B), gen.FlushPositions(r, len(d.B)), gen.PartitionStyles[r.Intn(4)])
			kind = "wide-tokens"
		}
		if i%40 == 17 {
			// a block whose distance symbols have chain-shaped frequencies (the
			// distance tree must be length-limited), optionally with rare long
			// matches at the rarest distances (the widest length+distance codes)
			s = accelSettings[(i/40)%8]
			nsym := r.Pick(16, 17, 18, 19, 20)
			top := 29
			if s.Win4K {
				top = 23
			}
			first := r.Range(2, top-nsym+1)
			d = gen.DeepDistance(r, nsym, first, r.Pick(0, 0, 4, 12), r.Pick(30000, 70000))
			ops = []gen.Op{{Kind: "write", N: len(d.B)}, {Kind: "close"}}
			if r.Chance(1, 3) {
				ops = gen.Schedule(r, len(d.B), nil, "random")
			}
			kind = "deep-distance-tree"
		}
	case i < l.core+l.random+l.sweepSmall:
		k := i - l.core - l.random
		n := k % 1201
		k /= 1201
		fam := c01Sweep[k%6]
		k /= 6
		s = accelSettings[k%8]
		d = gen.Make(r, fam, n)
		ops = []gen.Op{{Kind: "write", N: n}, {Kind: "close"}}
		kind = "sweep-small"
	case i >= l.core+l.random+l.sweepSmall+l.sweepRoll+l.tokenCap:
		// handled by chunkSweep (many sizes per case)
		kind = "chunk-boundary-sweep"
	case i >= l.core+l.random+l.sweepSmall+l.sweepRoll:
		// the token buffer (32767 tokens) fills exactly where a match longer than
		// 258 bytes begins: L one-token bytes, then a long run
		k := i - l.core - l.random - l.sweepSmall - l.sweepRoll
		L := c01CapLens[k%len(c01CapLens)]
		k /= len(c01CapLens)
		s = accelSettings[k%8]
		b := r.Bytes(L + 1200)
		v := byte(r.Intn(256))
		for j := L; j < L+r.Pick(300, 600, 900); j++ {
			b[j] = v
		}
		d = gen.Data{Desc: fmt.Sprintf("uniform%d+run", L), B: b}
		ops = []gen.Op{{Kind: "write", N: len(b)}, {Kind: "close"}}
		kind = "token-cap-sweep"
	default:
		k := i - l.core - l.random - l.sweepSmall
		off := k%49 - 24
		k /= 49
		which := k % 2
		k /= 2
		s = accelSettings[k%8]
		k /= 8
		w := 32768
		if s.Win4K {
			w = 4096
		}
		n := 2*w + 258 + off
		if which == 1 {
			n = 65536 + off
		}
		fam := []string{"text", "alpha4", "runs"}[k%3]
		d = gen.Make(r, fam, n)
		ops = []gen.Op{{Kind: "write", N: n}, {Kind: "close"}}
		if r.Chance(1, 3) {
			ops = []gen.Op{{Kind: "write", N: n}, {Kind: "flush"}, {Kind: "close"}}
		}
		kind = "sweep-rollover"
	}
	return
}

// chunkSweep: the writers hand their output to the destination in chunks of an
// 8 KiB buffer; a block whose output ends exactly where a chunk fills is a
// corner of its own. The compressed size per input byte is measured on a probe,
// then 120 consecutive input sizes around the predicted chunk boundary are
// round-tripped.
func (p c01) chunkSweep(c *mon.Ctx, i int) {
	r := c.R
	l := c01Lay(c.Tier)
	k := i - (l.core + l.random + l.sweepSmall + l.sweepRoll + l.tokenCap)
	s := accelSettings[k%8]
	fam := []string{"uniform", "alpha16", "text", "nearuniform"}[(k/8)%4]
	mult := (k/32)%3 + 1
	if k%5 == 4 {
		p.rareTail(c, s)
		return
	}
	data := gen.Make(r, fam, 70000).B
	probe, err := emit(c.API, s, data[:20000], []gen.Op{{Kind: "write", N: 20000}, {Kind: "close"}})
	if err != nil || len(probe) == 0 {
		return
	}
	ratio := float64(len(probe)) / 20000
	center := int(float64(mult*8180) / ratio)
	if center > 69000 {
		center = 69000
	}
	for n := center - 60; n <= center+60; n++ {
		if n < 1 {
			continue
		}
		withFlush := n%2 == 0
		ops := []gen.Op{{Kind: "write", N: n}, {Kind: "close"}}
		if withFlush {
			ops = []gen.Op{{Kind: "write", N: n}, {Kind: "flush"}, {Kind: "write", N: 100}, {Kind: "close"}}
		}
		total := n
		if withFlush {
			total += 100
		}
		out, err := emit(c.API, s, data[:total], ops)
		c.Eval(1)
		if err != nil {
			continue
		}
		if sig, what, _ := DecodeChecks(c.API, out, data[:total], nil); sig != "" {
			desc := map[string]interface{}{"setting": s.String(), "data": fmt.Sprintf("%s/%d", fam, total), "ops": gen.OpsString(ops), "kind": "chunk-boundary-sweep", "emitted_len": len(out)}
			c.Violate(fmt.Sprintf("%s|huffonly=%v|flush=%v", sig, s.Level == -2, withFlush), fmt.Sprintf("%s, data %s/%d, ops [%s]: %s", s, fam, total, gen.OpsString(ops), what), desc)
			return
		}
		c.Count("streams-checked", 1)
		c.Count("kind-chunk-boundary-sweep", 1)
		if len(out) > 8192*mult-40 && len(out) < 8192*mult+40 {
			c.Count("outputs-within-40-bytes-of-a-chunk-boundary", 1)
		}
		c.Nontrivial(s.String(), data[:total], n)
	}
}

// rareTail: steeply skewed data (the rarest symbols get 14/15-bit codes) ending
// in three of the rarest symbols, at 48 consecutive lengths so that the bit
// phase at the end of the block takes every value: the last literals and the
// end-of-block code are as long as codes get.
func (c01) rareTail(c *mon.Ctx, s Setting) {
	r := c.R
	// halving frequencies: symbol i occurs 2^(top-i) times, shuffled; the chain of
	// codes reaches the 15-bit limit. The terminator is three symbols that occur
	// nowhere else.
	top := r.Range(13, 15)
	perm := r.Perm(256)
	var base []byte
	for i := 0; i <= top; i++ {
		for k := 0; k < 1<<uint(top-i); k++ {
			base = append(base, byte(perm[i]))
		}
	}
	for i := len(base) - 1; i > 0; i-- {
		k := r.Intn(i + 1)
		base[i], base[k] = base[k], base[i]
	}
	rare := []byte{byte(perm[200]), byte(perm[201]), byte(perm[202])}
	// pad bytes in front (the most frequent symbol: a 1-bit code) shift the bit
	// phase at the end of the block through every value
	padded := append(bytes.Repeat([]byte{byte(perm[0])}, 48), base...)
	base = padded
	for pad := 0; pad < 48; pad++ {
		data := append(append([]byte(nil), base[pad:]...), rare...)
		withFlush := pad%2 == 1
		ops := []gen.Op{{Kind: "write", N: len(data)}, {Kind: "close"}}
		if withFlush {
			ops = []gen.Op{{Kind: "write", N: len(data)}, {Kind: "flush"}, {Kind: "close"}}
		}
		out, err := emit(c.API, s, data, ops)
		c.Eval(1)
		if err != nil {
			continue
		}
		if sig, what, _ := DecodeChecks(c.API, out, data, nil); sig != "" {
			desc := map[string]interface{}{"setting": s.String(), "data": fmt.Sprintf("halving-frequencies(top=%d)[%d:]+3 unique symbols", top, pad), "ops": gen.OpsString(ops), "kind": "rare-tail-sweep", "data_hex_tail": mon.Hex(data[len(data)-8:], 8), "data_sha": mon.Sha(data)}
			c.Violate(fmt.Sprintf("%s|huffonly=%v|flush=%v", sig, s.Level == -2, withFlush), fmt.Sprintf("%s, skewed data ending in its three rarest symbols, length %d, ops [%s]: %s", s, len(data), gen.OpsString(ops), what), desc)
			return
		}
		c.Count("streams-checked", 1)
		c.Count("kind-rare-tail-sweep", 1)
		c.Nontrivial(s.String(), data)
	}
}

func (p c01) Run(c *mon.Ctx, i int) {
	s, d, ops, kind := c01Case(c.Tier, i, c.R)
	if kind == "chunk-boundary-sweep" {
		p.chunkSweep(c, i)
		return
	}
	sink := &Sink{}
	w, err := NewWriter(c.API, s, sink)
	if err != nil {
		c.Violate("constructor-error|"+s.String(), fmt.Sprintf("constructor for %s failed: %v", s, err), nil)
		return
	}
	g, _ := w.(impl.Guarded)
	if g != nil {
		g.InstallGuards()
		defer g.DropGuards()
	}
	desc := map[string]interface{}{"setting": s.String(), "data": d.Desc, "data_sha": mon.Sha(d.B), "ops": gen.OpsString(ops), "kind": kind}
	pos := 0
	for k, o := range ops {
		var err error
		pv, st := mon.Safe(func() {
			switch o.Kind {
			case "write":
				_, err = w.Write(d.B[pos : pos+o.N])
				pos += o.N
			case "flush":
				err = w.Flush()
			case "close":
				err = w.Close()
			}
		})
		if pv != nil {
			desc["stack"] = st
			c.Violate("panic|"+mon.PanicSite(st), fmt.Sprintf("%s panicked at op %d of [%s] on %s: %v", o.Kind, k, gen.OpsString(ops), s, pv), desc)
			return
		}
		if g != nil {
			if e := g.CheckGuards(); e != nil {
				c.Violate("redzone|"+s.String(), fmt.Sprintf("after %s (op %d) on %s: %v", o.Kind, k, s, e), desc)
				return
			}
		}
		if err != nil {
			c.Count("op-returned-error-on-good-destination", 1)
			return
		}
	}
	c.Eval(1)
	emitted := sink.Buf.Bytes()
	sig, what, res := DecodeChecks(c.API, emitted, d.B, s.Dict)
	if sig != "" {
		hasFlush := false
		for _, o := range ops {
			if o.Kind == "flush" {
				hasFlush = true
			}
		}
		desc["emitted_len"] = len(emitted)
		if len(d.B) <= 4096 {
			desc["data_hex"] = mon.Hex(d.B, 4096)
			desc["emitted_hex"] = mon.Hex(emitted, 4096)
		}
		if sig == "ref-wrong-data" && isDelegatedDictReplay(res.Out, d.B, s.Dict) {
			c.Violate(sigDictReplay, fmt.Sprintf("%s, data %s: %s", s, d.Desc, whatDictReplay), desc)
			return
		}
		c.Violate(fmt.Sprintf("%s|huffonly=%v|flush=%v", sig, s.Level == -2, hasFlush), fmt.Sprintf("%s, data %s, ops [%s]: %s", s, d.Desc, gen.OpsString(ops), what), desc)
		return
	}
	c.Count("streams-checked", 1)
	c.Count("blocks-stored", res.NStored)
	c.Count("blocks-fixed", res.NFixed)
	c.Count("blocks-dynamic", res.NDynamic)
	c.Count("kind-"+kind, 1)
	w32 := 32768
	if s.Win4K {
		w32 = 4096
	}
	if s.Accelerated() && s.Level != -2 && len(d.B) >= 2*w32+258 {
		c.Count("inputs-crossing-buffer-rollover", 1)
	}
	if s.Level == -2 && len(d.B) >= 65536 {
		c.Count("inputs-crossing-64k-block", 1)
	}
	if len(emitted) > 8192 {
		c.Count("outputs-beyond-8k-buffer", 1)
	}
	if s.Accelerated() {
		c.Count("accelerated-settings", 1)
	} else {
		c.Count("delegated-settings", 1)
	}
	if s.Accelerated() && len(d.B) > 0 {
		c.Nontrivial(s.String(), d.B, gen.OpsString(ops))
	}
	if i%97 == 0 {
		c.Sample(desc)
	}
}
