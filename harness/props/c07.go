package props

import (
	"bytes"
	"fmt"
	"hash/adler32"
	"hash/crc32"
	"io"

	"fgverif/gen"
	"fgverif/impl"
	"fgverif/mon"
	"fgverif/refinf"
)

// C07 — gzip/zlib Readers never report success for data that fails its
// checksum.
type c07 struct{}

func init() { register(c07{}) }

func (c07) ID() string            { return "C07" }
func (c07) EvidenceLevel() string { return "exploration" }
func (c07) Rule() string {
	return "case = a well-formed gzip (1..3 members) or zlib container from either writer, payload 0..200 KiB, then many corruptions of it: every single-bit flip when the container is <= 400 bytes, random 1-3 bit flips / byte substitutions, targeted flips in trailer, flags and header CRC, and truncation at every byte (small) or sampled (large); destination sizes 1,7,512,64K. An independent container parser in the harness (liberal RFC 1950/1952 header reading + permissive reference inflater + own CRC-32/Adler-32/ISIZE check) decides what each corrupted input is. io.EOF from fastgo requires that parser to accept the input with identical bytes; a truncation strictly inside a member must end in io.ErrUnexpectedEOF after a prefix of the payload; every Read stays within 0..len(p); errors are of the allowed kinds and sticky. Non-trivial: the corrupted input differs from the original; distinct by its digest. A quarter of the reads issue a zero-length Read right after the last payload byte has been delivered, before reading on. Case 0 (levels 0, 3, 4): one member of 2^32+4097 zero bytes with a flipped bit in the high or low byte of its length field or in its CRC must not end in io.EOF. gzip containers are also corrupted with NUL bytes where a member header is due (one or ten, at every member boundary) and with 1..512 NUL bytes appended."
}
func (c07) NumCases(tier string) int {
	if tier == "thorough" {
		return 6000
	}
	return 160
}

// refGzip parses concatenated gzip members liberally. ok=false with a reason
// when the input is not a sequence of complete, checksum-correct members.
func refGzip(in []byte) (out []byte, ok bool, reason string, memberEnds []int) {
	p := 0
	for p < len(in) {
		b := in[p:]
		if len(b) < 10 {
			return out, false, "short-header", memberEnds
		}
		if b[0] != 0x1f || b[1] != 0x8b || b[2] != 8 {
			return out, false, "bad-magic", memberEnds
		}
		flg := b[3]
		q := 10
		if flg&4 != 0 {
			if q+2 > len(b) {
				return out, false, "short-extra", memberEnds
			}
			n := int(b[q]) | int(b[q+1])<<8
			q += 2 + n
			if q > len(b) {
				return out, false, "short-extra", memberEnds
			}
		}
		for _, bit := range []byte{8, 16} {
			if flg&bit != 0 {
				for {
					if q >= len(b) {
						return out, false, "short-string", memberEnds
					}
					q++
					if b[q-1] == 0 {
						break
					}
				}
			}
		}
		if flg&2 != 0 {
			if q+2 > len(b) {
				return out, false, "short-hcrc", memberEnds
			}
			want := uint16(crc32.ChecksumIEEE(b[:q]))
			if uint16(b[q])|uint16(b[q+1])<<8 != want {
				return out, false, "header-crc", memberEnds
			}
			q += 2
		}
		res := refinf.Inflate(b[q:], refinf.Options{MaxOut: 64 << 20})
		if res.Status != refinf.Complete {
			return append(out, res.Out...), false, "deflate-" + res.Status.String(), memberEnds
		}
		q += int(res.EndByte())
		if q+8 > len(b) {
			return append(out, res.Out...), false, "short-trailer", memberEnds
		}
		crc := uint32(b[q]) | uint32(b[q+1])<<8 | uint32(b[q+2])<<16 | uint32(b[q+3])<<24
		isz := uint32(b[q+4]) | uint32(b[q+5])<<8 | uint32(b[q+6])<<16 | uint32(b[q+7])<<24
		if crc != crc32.ChecksumIEEE(res.Out) || isz != uint32(len(res.Out)) {
			return append(out, res.Out...), false, "checksum", memberEnds
		}
		out = append(out, res.Out...)
		p += q + 8
		memberEnds = append(memberEnds, p)
	}
	return out, true, "", memberEnds
}

func refZlib(in []byte) (out []byte, ok bool, reason string) {
	if len(in) < 2 {
		return nil, false, "short-header"
	}
	if in[0]&0x0f != 8 {
		return nil, false, "bad-method"
	}
	if in[1]&0x20 != 0 {
		return nil, false, "needs-dictionary"
	}
	res := refinf.Inflate(in[2:], refinf.Options{MaxOut: 64 << 20})
	if res.Status != refinf.Complete {
		return res.Out, false, "deflate-" + res.Status.String()
	}
	q := 2 + int(res.EndByte())
	if q+4 > len(in) {
		return res.Out, false, "short-trailer"
	}
	sum := uint32(in[q])<<24 | uint32(in[q+1])<<16 | uint32(in[q+2])<<8 | uint32(in[q+3])
	if sum != adler32.Checksum(res.Out) {
		return res.Out, false, "checksum"
	}
	return res.Out, true, ""
}

// zeroAfter passes Reads through, never lets one call cross the n-th byte,
// and issues one zero-length Read right after the n-th byte was delivered.
type zeroAfter struct {
	r    io.Reader
	left int
	done bool
}

func (z *zeroAfter) Read(p []byte) (int, error) {
	if !z.done && z.left == 0 {
		z.done = true
		if n, e := z.r.Read(p[:0]); n != 0 || e != nil {
			return n, e
		}
	}
	if z.left > 0 && len(p) > z.left {
		p = p[:z.left]
	}
	n, e := z.r.Read(p)
	if z.left > 0 {
		z.left -= n
	}
	return n, e
}

// huge: one member of 4 GiB + 4097 zero bytes whose trailer is damaged in the
// length field (compared mod 2^32) or in the CRC: the Reader must not end in
// io.EOF.
func (c07) huge(c *mon.Ctx) {
	const total = int64(4)<<30 + 4097
	var cont bytes.Buffer
	w, err := c.API.NewGzipWriterLevel(&cont, 1)
	if err != nil {
		return
	}
	if _, err := io.Copy(w, &zeroReader{left: total}); err != nil {
		return
	}
	if w.Close() != nil {
		return
	}
	b := cont.Bytes()
	for _, pos := range []int{1, 4, 8} { // from the end: length high byte, length low byte, CRC low byte... counted back
		m := append([]byte(nil), b...)
		m[len(m)-pos] ^= 0x10
		var n int64
		var e error
		pv, st := mon.Safe(func() {
			z, err := c.API.NewGzipReader(bytes.NewReader(m))
			if err != nil {
				e = err
				return
			}
			n, e = io.Copy(io.Discard, z)
			if e == nil {
				e = io.EOF // io.Copy swallows the clean end
			}
		})
		c.Eval(1)
		desc := map[string]interface{}{"kind": "gzip", "payload": "2^32+4097 zero bytes", "flipped_byte_from_end": pos, "bytes_read": n}
		if pv != nil {
			desc["stack"] = st
			c.Violate("panic|gzip|over-4GiB", fmt.Sprint(pv), desc)
			return
		}
		if e == io.EOF {
			c.Violate("accepted|gzip|over-4GiB|trailer-flip", fmt.Sprintf("member of 2^32+4097 bytes with byte %d from the end of its trailer changed: read %d bytes and ended in io.EOF", pos, n), desc)
			return
		}
		c.Count("over-4GiB trailer corruptions rejected", 1)
		c.Nontrivial("huge", pos)
	}
}

func (p c07) Run(c *mon.Ctx, i int) {
	if i == 0 && (c.Level == 0 || c.Level >= 3) {
		p.huge(c)
		return
	}
	r := c.R
	kind := []string{"gzip", "zlib"}[i%2]
	small := i%4 < 2
	var cont, payload []byte
	var memberEnds []int
	members := 1
	if kind == "gzip" {
		members = r.Pick(1, 1, 2, 3)
	}
	desc := map[string]interface{}{"kind": kind, "members": members}
	for m := 0; m < members; m++ {
		max := 200 << 10
		if small {
			max = 300
		}
		d := gen.RandomData(r, max)
		if !small && r.Chance(1, 2) {
			// word-salad text over 64 KiB: short codes, packed table entries
			// everywhere, several history roll-overs
			d = gen.Data{Desc: "word-salad", B: wordSalad(r, r.Range(70000, 200000))}
		}
		if i%16 == 6 {
			// ten or so roll-overs over a four- or five-letter alphabet
			members = 1
			d = gen.Data{Desc: "word-salad", B: wordSaladAlpha(r, r.Range(200000, 300000), r.Pick(3, 4, 4, 5))}
		}
		api := impl.Stdlib
		if r.Bool() {
			api = c.API
		}
		lvl := allLevels[r.Intn(len(allLevels))]
		if d.Desc == "word-salad" {
			lvl = r.Pick(6, 6, 9, 3, 2, 1)
		}
		var b bytes.Buffer
		if kind == "gzip" && r.Chance(1, 3) {
			// hand-built member: no Go writer ever sets FHCRC (or FTEXT, XFL),
			// so the header-CRC path is reached only this way
			flg := byte(2) | byte(r.Intn(2)) // FHCRC, maybe FTEXT
			var hdr []byte
			var extra, name, comment []byte
			if r.Bool() {
				flg |= 4
				extra = r.Bytes(r.Range(0, 20))
			}
			if r.Bool() {
				flg |= 8
				name = []byte("name\x00")
			}
			if r.Bool() {
				flg |= 16
				comment = []byte("a comment\x00")
			}
			hdr = append(hdr, 0x1f, 0x8b, 8, flg, byte(r.Intn(256)), 0, 0, 0, byte(r.Pick(0, 2, 4)), byte(r.Intn(256)))
			if flg&4 != 0 {
				hdr = append(hdr, byte(len(extra)), byte(len(extra)>>8))
				hdr = append(hdr, extra...)
			}
			hdr = append(hdr, name...)
			hdr = append(hdr, comment...)
			c16 := uint16(crc32.ChecksumIEEE(hdr))
			hdr = append(hdr, byte(c16), byte(c16>>8))
			b.Write(hdr)
			b.Write(encodeStd(d.B, lvl, nil))
			b.Write(gzipTrailer(d.B))
			c.Count("hand-built-members-with-header-crc", 1)
		} else if kind == "gzip" {
			w, _ := api.NewGzipWriterLevel(&b, lvl)
			if r.Chance(1, 3) {
				w.SetHeader(impl.Header{Name: "n", Comment: "c", Extra: []byte{1, 2, 3}})
			}
			w.Write(d.B)
			w.Close()
		} else {
			w, _ := api.NewZlibWriterLevel(&b, lvl)
			w.Write(d.B)
			w.Close()
		}
		cont = append(cont, b.Bytes()...)
		payload = append(payload, d.B...)
		memberEnds = append(memberEnds, len(cont))
	}
	desc["container_len"] = len(cont)
	desc["container_sha"] = mon.Sha(cont)
	desc["payload_len"] = len(payload)

	type corruption struct {
		b     []byte
		what  string
		trunc int // >=0: truncation point
	}
	var cs []corruption
	flip := func(pos int, bit uint) corruption {
		b := append([]byte(nil), cont...)
		b[pos] ^= 1 << bit
		return corruption{b: b, what: fmt.Sprintf("flip@%d.%d", pos, bit), trunc: -1}
	}
	if len(cont) <= 400 {
		for pos := 0; pos < len(cont); pos++ {
			for bit := uint(0); bit < 8; bit++ {
				cs = append(cs, flip(pos, bit))
			}
		}
		for k := 0; k <= len(cont); k++ {
			cs = append(cs, corruption{b: cont[:k], what: fmt.Sprintf("truncate@%d", k), trunc: k})
		}
		c.Count("containers-with-exhaustive-single-bit-flips-and-truncations", 1)
	} else {
		for k := 0; k < 60; k++ {
			m, d := Mutate(r, cont)
			cs = append(cs, corruption{b: m, what: d, trunc: -1})
		}
		// trailer and header targets
		for k := 0; k < 40; k++ {
			end := memberEnds[r.Intn(len(memberEnds))]
			pos := end - 1 - r.Intn(8)
			if r.Chance(1, 3) {
				pos = r.Intn(12)
			}
			if pos >= 0 && pos < len(cont) {
				cs = append(cs, flip(pos, uint(r.Intn(8))))
			}
		}
		// cuts around the compressed positions at which the output crosses 64 KiB
		// and every further 32 KiB (single-member containers)
		if len(memberEnds) == 1 && len(payload) > 65536 {
			off := 10
			if kind == "zlib" {
				off = 2
			}
			var marks []int
			for m := 65536; m < len(payload); m += 32768 {
				marks = append(marks, m)
			}
			var raw []byte
			if kind == "gzip" {
				raw, _ = gzipDeflatePart(cont)
				off = len(cont) - 8 - len(raw)
			} else {
				raw, _ = zlibDeflatePart(cont)
			}
			if raw != nil {
				res := refinf.Inflate(raw, refinf.Options{Marks: marks, KeepBlocks: 1})
				for zi, mb := range res.MarkBits {
					for t := off + int(mb/8) - 12; t <= off+int(mb/8)+40+20*zi; t++ {
						if t > 0 && t < len(cont) {
							cs = append(cs, corruption{b: cont[:t], what: fmt.Sprintf("truncate@%d (roll-over zone)", t), trunc: t})
						}
					}
				}
				c.Count("containers-with-roll-over-zone-truncations", 1)
			}
		}
		for k := 0; k < 40; k++ {
			t := r.Intn(len(cont) + 1)
			if r.Bool() {
				t = memberEnds[r.Intn(len(memberEnds))] - r.Range(0, 9)
				if t < 0 {
					t = 0
				}
			}
			cs = append(cs, corruption{b: cont[:t], what: fmt.Sprintf("truncate@%d", t), trunc: t})
		}
	}
	// NUL bytes where a member header is due: padding-like, but not a gzip member
	if kind == "gzip" {
		for _, end := range memberEnds {
			if end < len(cont) {
				b := append([]byte(nil), cont...)
				b[end] = 0
				cs = append(cs, corruption{b: b, what: fmt.Sprintf("nul-at-member-start@%d", end), trunc: -1})
				b2 := append([]byte(nil), cont...)
				for j := end; j < end+10 && j < len(b2); j++ {
					b2[j] = 0
				}
				cs = append(cs, corruption{b: b2, what: fmt.Sprintf("ten-nuls-at-member-start@%d", end), trunc: -1})
			}
		}
		for _, k := range []int{1, 2, 9, 10, 11, 512} {
			cs = append(cs, corruption{b: append(append([]byte(nil), cont...), make([]byte, k)...), what: fmt.Sprintf("%d-nuls-appended", k), trunc: -1})
		}
	}
	// the untouched container must read back (otherwise the case says nothing)
	zeroRead := false
	readWith := func(in []byte, style string) (rr readRun, ctorErr error) {
		var rd io.Reader
		pv, st := mon.Safe(func() {
			if kind == "gzip" {
				z, e := c.API.NewGzipReader(bytes.NewReader(in))
				if e != nil {
					ctorErr = e
					return
				}
				rd = z
			} else {
				z, e := c.API.NewZlibReader(bytes.NewReader(in))
				if e != nil {
					ctorErr = e
					return
				}
				rd = z
			}
		})
		if pv != nil {
			return readRun{panicV: pv, stack: st}, nil
		}
		if ctorErr != nil {
			return readRun{}, ctorErr
		}
		if zeroRead {
			// all payload bytes, then a zero-length Read, then on
			rd = &zeroAfter{r: rd, left: len(payload)}
		}
		return drain(rd, gen.ReadSizes(r, style), len(payload)+4<<20), nil
	}
	for _, co := range cs {
		style := []string{"1", "7", "512", "64k"}[r.Intn(4)]
		if len(payload) > 20000 && style == "1" {
			style = "7"
		}
		zeroRead = r.Chance(1, 4)
		if zeroRead {
			c.Count("reads-with-a-zero-length-Read-after-the-last-payload-byte", 1)
		}
		rr, ctorErr := readWith(co.b, style)
		zeroRead = false
		c.Eval(1)
		d2 := map[string]interface{}{"corruption": co.what, "read_style": style, "zero_length_read_after_payload": zeroRead}
		for k, v := range desc {
			d2[k] = v
		}
		if len(co.b) <= 500 {
			d2["input_hex"] = mon.Hex(co.b, 500)
		}
		finalErr := rr.err
		if ctorErr != nil {
			finalErr = ctorErr
		}
		k := impl.ErrClass(finalErr)
		d2["fastgo"] = fmt.Sprintf("%d bytes, err=%v", len(rr.out), finalErr)
		where := kind
		if rr.panicV != nil {
			d2["stack"] = rr.stack
			c.Violate("panic|"+where+"|"+mon.PanicSite(rr.stack), fmt.Sprintf("panicked on %s: %v", co.what, rr.panicV), d2)
			return
		}
		if rr.bad != "" {
			c.Violate("read-contract|"+where, fmt.Sprintf("%s: %s", co.what, rr.bad), d2)
			return
		}
		var refOut []byte
		var refOK bool
		var reason string
		if kind == "gzip" {
			refOut, refOK, reason, _ = refGzip(co.b)
		} else {
			refOut, refOK, reason = refZlib(co.b)
		}
		d2["reference"] = fmt.Sprintf("ok=%v %s, %d bytes", refOK, reason, len(refOut))
		if k == "EOF" {
			if len(co.b) == 0 && kind == "gzip" {
				c.Count("empty-gzip-input-is-a-valid-empty-file", 1)
				continue
			}
			if !refOK {
				c.Violate("eof-on-corrupt-container|"+where+"|"+reason, fmt.Sprintf("%s reader ended in io.EOF after %d bytes on %s; the independent parser says: %s", kind, len(rr.out), co.what, reason), d2)
				return
			}
			if !bytes.Equal(rr.out, refOut) {
				c.Violate("eof-with-different-data|"+where, fmt.Sprintf("%s reader ended in io.EOF with %d bytes that differ from the %d bytes the container holds (first difference %d)", kind, len(rr.out), len(refOut), firstDiff(rr.out, refOut)), d2)
				return
			}
			c.Count("accepted-and-parser-agrees", 1)
		} else {
			switch k {
			case "UnexpectedEOF", "Corrupt", "gzip.ErrChecksum", "gzip.ErrHeader", "zlib.ErrChecksum", "zlib.ErrHeader", "zlib.ErrDictionary":
			default:
				if len(co.b) == 0 && kind == "zlib" {
					break
				}
				c.Violate("error-kind|"+where+"|"+short(k), fmt.Sprintf("%s: final error %v is none of checksum, header, corrupt-input, unexpected-EOF", co.what, finalErr), d2)
				return
			}
			if rr.sticky != "" {
				c.Violate("error-not-sticky|"+where, rr.sticky, d2)
				return
			}
		}
		if co.trunc >= 0 {
			// inside a member?
			inside := co.trunc > 0
			prevEnd := 0
			for _, e := range memberEnds {
				if co.trunc == e {
					inside = false
				}
				if e <= co.trunc {
					prevEnd = e
				}
			}
			_ = prevEnd
			if kind == "zlib" && co.trunc == 0 {
				continue
			}
			if inside && co.trunc < len(cont) {
				if k != "UnexpectedEOF" {
					c.Violate("truncation-not-unexpected-eof|"+where+"|"+short(k), fmt.Sprintf("%s cut at %d of %d bytes (inside a member) ended in %v", kind, co.trunc, len(cont), finalErr), d2)
					return
				}
				if !isPrefix(rr.out, payload) {
					c.Violate("truncation-non-payload-bytes|"+where, fmt.Sprintf("%s cut at %d: bytes handed out are not a prefix of the payload (first difference %d)", kind, co.trunc, firstDiff(rr.out, payload)), d2)
					return
				}
				c.Count("truncations-inside-member-held", 1)
			} else if co.trunc > 0 {
				// cut exactly between members: a shorter valid file
				if k != "EOF" {
					c.Violate("member-boundary-cut-rejected|"+where, fmt.Sprintf("%s cut exactly at a member boundary (%d) ended in %v", kind, co.trunc, finalErr), d2)
					return
				}
				c.Count("cuts-at-member-boundary-read-as-shorter-file", 1)
			}
		} else {
			c.Count("corruptions-judged", 1)
			if k != "EOF" {
				c.Count("corruptions-rejected:"+short(k), 1)
			}
		}
		if !bytes.Equal(co.b, cont) {
			c.Nontrivial(co.b)
		}
	}
	if i%13 == 0 {
		desc["corruptions"] = len(cs)
		c.Sample(desc)
	}
}
