package gen

import "fmt"

// Data is a generated plaintext together with a short description of how it
// was made (the description goes into replay files and evidence samples).
type Data struct {
	Desc string
	B    []byte
}

// Boundary sizes: every internal roll-over of the compressor ±2, for both
// windows. 2W+258 is the input buffer fill that triggers a compression step,
// 64 KiB the Huffman-only block, 32767 the token cap.
var BoundarySizes = []int{
	0, 1, 2, 3, 4, 7, 8, 9, 15, 16, 17, 255, 256, 257, 258, 259, 260, 516, 517,
	4095, 4096, 4097, 8190, 8191, 8192, 8193, 8194,
	8448, 8449, 8450, 8451, 8452, 8453, 8460, 8466,
	12546, 16642,
	32766, 32767, 32768, 32769, 32770,
	65534, 65535, 65536, 65537, 65538,
	65792, 65793, 65794, 65795, 65796, 65797, 65810,
	98560, 98561, 98562, 98563, 131070, 131071, 131072, 131073, 131074,
	131330, 131331, 196866, 196867,
}

// Family names, in the order RandomData picks from.
var Families = []string{
	"uniform", "alpha2", "alpha4", "alpha16", "nearuniform", "fib", "geom", "text",
	"equal", "period", "runs", "farcopy", "flip", "sparsematch", "mixed", "zeros-then-random",
	"utf16", "dominant", "fibexact", "farcopy2", "farcopy3",
}

// Make builds n bytes of the named family.
func Make(r *Rand, family string, n int) Data {
	b := make([]byte, n)
	desc := fmt.Sprintf("%s/%d", family, n)
	switch family {
	case "uniform":
		r.Fill(b)
	case "alpha2", "alpha4", "alpha8", "alpha16":
		k := map[string]int{"alpha2": 2, "alpha4": 4, "alpha8": 8, "alpha16": 16}[family]
		syms := r.Bytes(k)
		for i := range b {
			b[i] = syms[r.Intn(k)]
		}
	case "nearuniform":
		// 255 equiprobable symbols and one rare one
		rare := byte(r.Intn(256))
		for i := range b {
			v := byte(r.Intn(256))
			if v == rare && !r.Chance(1, 50) {
				v++
			}
			b[i] = v
		}
	case "fib":
		// Fibonacci-weighted alphabet: forces Huffman depths beyond 15 before limiting
		k := r.Range(20, 40)
		w := make([]float64, k)
		w[0], w[1] = 1, 1
		tot := 2.0
		for i := 2; i < k; i++ {
			w[i] = w[i-1] + w[i-2]
			tot += w[i]
		}
		perm := r.Perm(256)
		for i := range b {
			x := r.Float() * tot
			j := 0
			for j < k-1 && x >= w[j] {
				x -= w[j]
				j++
			}
			b[i] = byte(perm[j])
		}
	case "geom":
		k := r.Range(20, 256)
		perm := r.Perm(256)
		for i := range b {
			j := 0
			for j < k-1 && r.Bool() {
				j++
			}
			b[i] = byte(perm[j])
		}
	case "text":
		words := []string{"the", "of", "and", "compress", "deflate", "window", "huffman", "block", "a", "to", "in", "stream", "\n", "fastgo", "0123456789", "Intel"}
		i := 0
		for i < n {
			w := words[r.Intn(len(words))]
			i += copy(b[i:], w)
			if i < n {
				b[i] = ' '
				i++
			}
		}
	case "equal":
		v := byte(r.Intn(256))
		for i := range b {
			b[i] = v
		}
	case "period":
		p := r.Pick(1, 2, 3, 4, 5, 7, 8, 16, 31, 32, 33, 63, 64, 258, 259, 4095, 4096, 4097, 32767, 32768, 32769, 65535, 65536, 65537)
		desc = fmt.Sprintf("period%d/%d", p, n)
		fillPeriod(r, b, p)
	case "runs":
		i := 0
		for i < n {
			l := r.Pick(1, 2, 3, 4, 257, 258, 259, 260, 516, 517, 1000, 100000)
			if r.Bool() {
				l = r.Range(1, 600)
			}
			v := byte(r.Intn(256))
			for j := 0; j < l && i < n; j++ {
				b[i] = v
				i++
			}
			// a few random bytes between runs
			for j := r.Intn(4); j > 0 && i < n; j-- {
				b[i] = byte(r.Intn(256))
				i++
			}
		}
	case "farcopy":
		// random data in which chunks are copies of what is W-1, W, W+1 back
		r.Fill(b)
		dists := []int{4095, 4096, 4097, 32767, 32768, 32769, 8191, 8192, 65535, 65536, 65537, 1, 2, 3}
		i := 0
		for i < n {
			d := dists[r.Intn(len(dists))]
			l := r.Pick(3, 4, 5, 8, 9, 16, 64, 258, 259, 300, 1000)
			if i >= d {
				for j := 0; j < l && i < n; j++ {
					b[i] = b[i-d]
					i++
				}
			}
			i += r.Range(1, 200)
		}
	case "farcopy2":
		// random bytes with many short copies from far back (>= 16385): tokens
		// of 25-32 bits (long distance extra bits), densely
		r.Fill(b)
		for i := 16500; i+12 < n; {
			d := r.Range(16385, 32768)
			if d > i {
				d = i
			}
			l := r.Range(3, 10)
			copy(b[i:i+l], b[i-d:i-d+l])
			i += l + r.Range(0, 6)
		}
	case "farcopy3":
		// mostly random literals; one token in five is a copy with a random
		// distance class (up to 32768) and a long length: rare match symbols get
		// long codes and carry many extra bits, so tokens cost up to ~30 bits
		r.Fill(b)
		for i := 33000; i < n; {
			if r.Intn(5) != 0 {
				i++
				continue
			}
			var d int
			if r.Intn(5) == 0 {
				d = r.Range(16385, 32768)
			} else {
				e := uint(r.Range(3, 13))
				d = 1<<e + 1 + r.Intn(1<<e)
			}
			if d > i {
				d = i
			}
			l := r.Range(4, 258)
			if r.Bool() {
				l = r.Range(131, 257)
			}
			for j := 0; j < l && i < n; j++ {
				b[i] = b[i-d]
				i++
			}
		}
	case "flip":
		// statistics flip every 20000 bytes
		for i := 0; i < n; {
			k := r.Pick(1, 2, 4, 16, 64, 256)
			base := byte(r.Intn(256))
			for j := 0; j < 20000 && i < n; j++ {
				b[i] = base + byte(r.Intn(k))
				i++
			}
		}
	case "sparsematch":
		r.Fill(b)
		for i := 70000; i+4 < n; i += r.Range(5, 40) {
			d := r.Range(20000, 32768)
			copy(b[i:i+4], b[i-d:i-d+4])
		}
	case "mixed":
		i := 0
		for i < n {
			l := r.Range(1, 30000)
			if i+l > n {
				l = n - i
			}
			sub := Make(r, Families[r.Intn(13)], l) // no recursion into mixed
			copy(b[i:], sub.B)
			i += l
		}
	case "fibexact":
		// symbol i occurs exactly ceil(g^i) times (g = golden ratio or 1.65..2),
		// shuffled: the unrestricted Huffman tree is a chain as deep as the
		// number of symbols, well beyond the 15-bit (and 7-bit) limits
		g := []float64{1.6180339887, 1.65, 1.8, 2.0}[r.Intn(4)]
		perm := r.Perm(256)
		pos := 0
		c := 1.0
		k := 0
		for ; k < 60 && pos < n; k++ {
			cnt := int(c + 0.999999)
			if pos+cnt > n {
				break
			}
			for j := 0; j < cnt; j++ {
				b[pos] = byte(perm[k])
				pos++
			}
			c *= g
		}
		// the rest: the most frequent symbol so far (keeps the chain shape)
		top := byte(perm[0])
		if k > 0 {
			top = byte(perm[k-1])
		}
		for ; pos < n; pos++ {
			b[pos] = top
		}
		// shuffle positions
		for i := n - 1; i > 0; i-- {
			j := r.Intn(i + 1)
			b[i], b[j] = b[j], b[i]
		}
		desc = fmt.Sprintf("fibexact(g=%.2f,k=%d)/%d", g, k, n)
	case "utf16":
		// every second byte is the same value, the others are high-entropy
		// (as in UTF-16 Latin text: the other bytes never take that value, so its
		// count is exactly half of any even-sized block)
		z := byte(r.Pick(0, 0, 0x20, 0xff))
		r.Fill(b)
		for i := range b {
			if b[i] == z {
				b[i] = z + 1 + byte(i%254)
			}
		}
		for i := r.Intn(2); i < n; i += 2 {
			b[i] = z
		}
	case "dominant":
		// one symbol with probability 1/2..15/16, the rest uniform
		z := byte(r.Intn(256))
		den := r.Pick(2, 2, 3, 4, 8, 16)
		r.Fill(b)
		for i := range b {
			if r.Intn(den) != 0 {
				b[i] = z
			}
		}
	case "zeros-then-random":
		h := n / 2
		r.Fill(b[h:])
	default:
		panic("unknown family " + family)
	}
	return Data{Desc: desc, B: b}
}

func fillPeriod(r *Rand, b []byte, p int) {
	if p <= 0 {
		p = 1
	}
	pat := r.Bytes(p)
	for i := range b {
		b[i] = pat[i%p]
	}
}

// Periodic returns n bytes repeating a random pattern of length p.
func Periodic(r *Rand, n, p int) Data {
	b := make([]byte, n)
	fillPeriod(r, b, p)
	return Data{Desc: fmt.Sprintf("period%d/%d", p, n), B: b}
}

// PeriodicAlpha repeats a random pattern of length p over an alphabet of k symbols.
func PeriodicAlpha(r *Rand, n, p, k int) Data {
	if p <= 0 {
		p = 1
	}
	syms := r.Bytes(k)
	pat := make([]byte, p)
	for i := range pat {
		pat[i] = syms[r.Intn(k)]
	}
	b := make([]byte, n)
	for i := range b {
		b[i] = pat[i%p]
	}
	return Data{Desc: fmt.Sprintf("period%d-alpha%d/%d", p, k, n), B: b}
}

// RandomSize draws a size: mostly small, sometimes around a roll-over,
// sometimes several roll-overs long.
func RandomSize(r *Rand, max int) int {
	var n int
	switch r.Intn(10) {
	case 0, 1, 2:
		n = r.Intn(300)
	case 3, 4:
		n = r.Intn(10000)
	case 5, 6:
		n = BoundarySizes[r.Intn(len(BoundarySizes))] + r.Range(-3, 3)
	case 7, 8:
		n = r.Intn(140000)
	default:
		n = r.Intn(400000)
	}
	if n < 0 {
		n = 0
	}
	if max > 0 && n > max {
		n = max - r.Intn(max/8+1)
	}
	return n
}

// RandomData draws family and size.
func RandomData(r *Rand, max int) Data {
	return Make(r, Families[r.Intn(len(Families))], RandomSize(r, max))
}

// Op is one call on a Writer.
type Op struct {
	Kind string // "write", "flush", "close", "reset"
	N    int    // bytes for write
}

// Partition splits n bytes into Write sizes. style names the family.
func Partition(r *Rand, n int, style string) []int {
	var out []int
	switch style {
	case "one":
		out = []int{n}
	case "bytes":
		for i := 0; i < n; i++ {
			out = append(out, 1)
		}
	case "random":
		for left := n; left > 0; {
			var k int
			switch r.Intn(6) {
			case 0:
				k = r.Range(1, 8)
			case 1:
				k = r.Range(1, 300)
			case 2:
				k = r.Range(1, 9000)
			case 3:
				k = r.Range(1, 70000)
			case 4:
				k = r.Pick(8450, 8451, 8452, 65536, 65794, 65795, 65796, 4096, 32768)
			default:
				k = 0
			}
			if k > left {
				k = left
			}
			out = append(out, k)
			left -= k
		}
	case "rollover":
		// writes that end exactly at, one before and one after buffer fills
		step := r.Pick(8450, 65794, 65536, 8451, 65795, 8449, 65793)
		for left := n; left > 0; {
			k := step
			if r.Chance(1, 4) {
				k += r.Range(-1, 1)
			}
			if k > left {
				k = left
			}
			out = append(out, k)
			left -= k
		}
	case "zeros":
		// zero-length writes sprinkled between random chunks
		for left := n; left > 0; {
			if r.Bool() {
				out = append(out, 0)
			}
			k := r.Range(1, 20000)
			if k > left {
				k = left
			}
			out = append(out, k)
			left -= k
		}
		out = append(out, 0)
	default:
		panic("unknown partition style " + style)
	}
	if len(out) == 0 {
		out = []int{0}
	}
	return out
}

var PartitionStyles = []string{"one", "random", "rollover", "zeros", "bytes"}

// FlushPositions draws sorted positions in [0,n] at which Flush is called
// (a position may repeat: doubled Flush).
func FlushPositions(r *Rand, n int) []int {
	var pos []int
	switch r.Intn(8) {
	case 0, 1, 2:
		return nil
	case 3:
		pos = append(pos, 0)
	case 4:
		pos = append(pos, n)
	case 5:
		k := r.Range(1, 6)
		for i := 0; i < k; i++ {
			pos = append(pos, r.Intn(n+1))
		}
	case 6:
		p := r.Intn(n + 1)
		pos = append(pos, p, p)
	default:
		for _, b := range []int{8450, 65794, 65536, 131588} {
			if b+1 <= n && r.Bool() {
				pos = append(pos, b+r.Range(-1, 1))
			}
		}
		pos = append(pos, r.Intn(n+1))
	}
	// insertion sort
	for i := 1; i < len(pos); i++ {
		for j := i; j > 0 && pos[j] < pos[j-1]; j-- {
			pos[j], pos[j-1] = pos[j-1], pos[j]
		}
	}
	return pos
}

// Schedule interleaves a Write partition of each Flush segment with the Flush
// calls and a final Close.
func Schedule(r *Rand, n int, flushes []int, style string) []Op {
	var ops []Op
	prev := 0
	for _, f := range flushes {
		if f > n {
			f = n
		}
		if f > prev {
			for _, k := range Partition(r, f-prev, style) {
				ops = append(ops, Op{Kind: "write", N: k})
			}
		}
		if style == "zeros" && r.Bool() {
			// also between two Flushes at the same position
			ops = append(ops, Op{Kind: "write", N: 0})
		}
		ops = append(ops, Op{Kind: "flush"})
		prev = f
	}
	if n > prev {
		for _, k := range Partition(r, n-prev, style) {
			ops = append(ops, Op{Kind: "write", N: k})
		}
	}
	ops = append(ops, Op{Kind: "close"})
	return ops
}

// OpsString renders an op list compactly, e.g. "w100 f w0 w8451 c".
func OpsString(ops []Op) string {
	s := ""
	for i, o := range ops {
		if i > 0 {
			s += " "
		}
		if i >= 40 {
			s += fmt.Sprintf("…(%d ops)", len(ops))
			break
		}
		switch o.Kind {
		case "write":
			s += fmt.Sprintf("w%d", o.N)
		case "flush":
			s += "f"
		case "close":
			s += "c"
		case "reset":
			s += "r"
		}
	}
	return s
}

// ReadSizes returns a function yielding destination buffer sizes for Read.
func ReadSizes(r *Rand, style string) func() int {
	switch style {
	case "1":
		return func() int { return 1 }
	case "2":
		return func() int { return 2 }
	case "7":
		return func() int { return 7 }
	case "512":
		return func() int { return 512 }
	case "4096":
		return func() int { return 4096 }
	case "64k":
		return func() int { return 65536 }
	case "128k":
		return func() int { return 131072 }
	case "random":
		return func() int {
			switch r.Intn(5) {
			case 0:
				return r.Range(1, 4)
			case 1:
				return r.Range(1, 300)
			case 2:
				return r.Range(1, 5000)
			case 3:
				return r.Range(1, 70000)
			default:
				return r.Pick(1, 258, 259, 4096, 32768, 65536, 65824)
			}
		}
	}
	panic("unknown read style " + style)
}

var ReadStyles = []string{"1", "2", "7", "512", "4096", "64k", "random"}

// DistinctGramUnit builds a cyclic unit of length p over k symbols in which all
// p cyclic g-grams are distinct (randomised depth-first search in the de Bruijn
// graph); ok=false if none was found within the step budget.
func DistinctGramUnit(r *Rand, p, k, g int) (unit []byte, ok bool) {
	if p < 1 || k < 1 {
		return nil, false
	}
	pow := 1
	for i := 0; i < g; i++ {
		pow *= k
	}
	if p > pow {
		return nil, false
	}
	seq := make([]int, p)
	used := make(map[int]bool)
	gram := func(end int) (int, bool) { // g-gram ending at index end (needs end >= g-1)
		v := 0
		for i := end - g + 1; i <= end; i++ {
			v = v*k + seq[i]
		}
		return v, true
	}
	steps := 0
	var dfs func(pos int) bool
	dfs = func(pos int) bool {
		steps++
		if steps > 200000 {
			return false
		}
		if pos == p {
			// close the cycle: the g-1 wrapping grams must be new and distinct too
			var added []int
			good := true
			ext := append(append([]int(nil), seq...), seq[:g-1]...)
			for e := p; e < p+g-1 && good; e++ {
				v := 0
				for i := e - g + 1; i <= e; i++ {
					v = v*k + ext[i]
				}
				if used[v] {
					good = false
				} else {
					used[v] = true
					added = append(added, v)
				}
			}
			if !good {
				for _, v := range added {
					delete(used, v)
				}
			}
			return good
		}
		for _, c := range r.Perm(k) {
			seq[pos] = c
			if pos >= g-1 {
				v, _ := gram(pos)
				if used[v] {
					continue
				}
				used[v] = true
				if dfs(pos + 1) {
					return true
				}
				delete(used, v)
			} else if dfs(pos + 1) {
				return true
			}
		}
		return false
	}
	if p < g {
		// short units: grams wrap several times; accept any unit whose cyclic grams are distinct
		for try := 0; try < 200; try++ {
			for i := range seq {
				seq[i] = r.Intn(k)
			}
			if cyclicGramsDistinct(seq, g) {
				return toBytes(r, seq, k), true
			}
		}
		return nil, false
	}
	if !dfs(0) {
		return nil, false
	}
	return toBytes(r, seq, k), true
}

func toBytes(r *Rand, seq []int, k int) []byte {
	syms := r.Perm(256)[:k]
	out := make([]byte, len(seq))
	for i, v := range seq {
		out[i] = byte(syms[v])
	}
	return out
}

func cyclicGramsDistinct(seq []int, g int) bool {
	seen := map[string]bool{}
	n := len(seq)
	for i := 0; i < n; i++ {
		key := make([]byte, g)
		for j := 0; j < g; j++ {
			key[j] = byte(seq[(i+j)%n])
		}
		if seen[string(key)] {
			return false
		}
		seen[string(key)] = true
	}
	return true
}

// HasRepeatedGram reports whether some cyclic g-gram of the unit occurs at two
// positions of the unit.
func HasRepeatedGram(unit []byte, g int) bool {
	seq := make([]int, len(unit))
	for i, b := range unit {
		seq[i] = int(b)
	}
	return !cyclicGramsDistinct(seq, g)
}

// DeepDistance builds data whose matches, found by a hash-of-four-bytes match
// finder that remembers the newest position per hash, use about nsym distance
// symbols with frequencies in which each exceeds the sum of all rarer ones
// (1, 1, 2+, 4+, ...): the unrestricted distance Huffman tree of the block is a
// chain about nsym deep, beyond the 15-bit limit for nsym >= 17. first is the
// rarest symbol's number minus nsym-1 (symbols first..first+nsym-1 are used, the
// short distances most often). With long > 0, that many matches of length
// 67..257 at the rarest distances are added (a rare length symbol meeting a rare
// distance symbol). total is the final length (incompressible filler behind).
func DeepDistance(r *Rand, nsym, first, long, total int) Data {
	lo := []int{1, 2, 3, 4, 5, 7, 9, 13, 17, 25, 33, 49, 65, 97, 129, 193, 257, 385, 513, 769, 1025, 1537, 2049, 3073, 4097, 6145, 8193, 12289, 16385, 24577}
	hi := []int{1, 2, 3, 4, 6, 8, 12, 16, 24, 32, 48, 64, 96, 128, 192, 256, 384, 512, 768, 1024, 1536, 2048, 3072, 4096, 6144, 8192, 12288, 16384, 24576, 32768}
	w := []int{1, 1}
	for len(w) < nsym {
		sum := 0
		for _, v := range w[:len(w)-1] {
			sum += v
		}
		w = append(w, sum+sum/20+2)
	}
	type task struct{ sym, ln int }
	var tasks []task
	for i, n := range w {
		s := first + nsym - 1 - i
		for j := 0; j < n; j++ {
			tasks = append(tasks, task{s, 4})
		}
	}
	for j := 0; j < long; j++ {
		tasks = append(tasks, task{first + nsym - 1 - r.Intn(3), r.Range(67, 257)})
	}
	for i := len(tasks) - 1; i > 0; i-- {
		j := r.Intn(i + 1)
		tasks[i], tasks[j] = tasks[j], tasks[i]
	}
	data := make([]byte, 0, total+300)
	last := map[uint32]int{}
	key := func(q int) uint32 {
		return uint32(data[q]) | uint32(data[q+1])<<8 | uint32(data[q+2])<<16 | uint32(data[q+3])<<24
	}
	push := func(c byte) {
		data = append(data, c)
		if n := len(data); n >= 4 {
			last[key(n-4)] = n - 4
		}
	}
	lead := hi[first+nsym-1] + 60
	for i := 0; i < lead; i++ {
		push(byte(r.Intn(256)))
	}
	for _, t := range tasks {
		p := len(data)
		for try := 0; try < 200; try++ {
			d := lo[t.sym] + r.Intn(hi[t.sym]-lo[t.sym]+1)
			q := p - d
			if q < 0 || q+t.ln > p {
				continue
			}
			if last[key(q)] != q {
				continue // not the newest occurrence of these four bytes
			}
			for i := 0; i < t.ln; i++ {
				push(data[q+i])
			}
			// a separator that ends the match there
			c := byte(r.Intn(256))
			for q+t.ln < p && c == data[q+t.ln] {
				c++
			}
			push(c)
			break
		}
	}
	for len(data) < total {
		push(byte(r.Intn(256)))
	}
	return Data{Desc: fmt.Sprintf("deep-distance-tree/%dsym-from-%d/long%d/%d", nsym, first, long, len(data)), B: data}
}

// DoubleGramUnit builds a period unit of length p (54..81) over three symbols
// in which, read cyclically, every 3-gram occurs at least twice and every
// 4-gram at most once: an Euler circuit of the de Bruijn graph on 3-grams from
// which the 27 edges of the form abca (the pure cycling register) are removed,
// with p-54 of them put back as whole cycles (three loops aaa->aaa and eight
// cycles of length three).
func DoubleGramUnit(r *Rand, p int) (unit []byte, ok bool) {
	if p < 54 || p > 81 {
		return nil, false
	}
	extra := p - 54
	loops := extra % 3
	tri := extra / 3
	if tri > 8 {
		loops += 3 * (tri - 8)
		tri = 8
	}
	if loops > 3 {
		return nil, false
	}
	// edge abcd: from node abc to node bcd; index a*27+b*9+c*3+d
	var use [81]bool
	for e := 0; e < 81; e++ {
		a, d := e/27, e%3
		use[e] = a != d
	}
	// put back cycles of x1x2x3 -> x2x3x1
	lp := r.Perm(3)
	for k := 0; k < loops; k++ {
		a := lp[k]
		use[a*27+a*9+a*3+a] = true
	}
	var cyc [][3]int
	seen := map[int]bool{}
	for n := 0; n < 27; n++ {
		a, b, c := n/9, n/3%3, n%3
		if a == b && b == c || seen[n] {
			continue
		}
		seen[n], seen[b*9+c*3+a], seen[c*9+a*3+b] = true, true, true
		cyc = append(cyc, [3]int{n, b*9 + c*3 + a, c*9 + a*3 + b})
	}
	cp := r.Perm(len(cyc))
	for k := 0; k < tri; k++ {
		for _, n := range cyc[cp[k]] {
			use[n*3+n/9] = true // edge abca
		}
	}
	// Hierholzer with random edge order
	out := make([][]int, 27)
	cnt := 0
	for e := 0; e < 81; e++ {
		if use[e] {
			out[e/3] = append(out[e/3], e%3)
			cnt++
		}
	}
	if cnt != p {
		return nil, false
	}
	for n := range out {
		for i := len(out[n]) - 1; i > 0; i-- {
			j := r.Intn(i + 1)
			out[n][i], out[n][j] = out[n][j], out[n][i]
		}
	}
	var stack, circuit []int
	stack = append(stack, r.Intn(27))
	for len(stack) > 0 {
		v := stack[len(stack)-1]
		if len(out[v]) > 0 {
			d := out[v][len(out[v])-1]
			out[v] = out[v][:len(out[v])-1]
			stack = append(stack, (v%9)*3+d)
		} else {
			circuit = append(circuit, v)
			stack = stack[:len(stack)-1]
		}
	}
	if len(circuit) != p+1 {
		return nil, false // not connected
	}
	syms := r.Perm(256)[:3]
	unit = make([]byte, p)
	for i := 0; i < p; i++ {
		// circuit is reversed; the first symbol of each node in travel order
		unit[i] = byte(syms[circuit[p-i]/9])
	}
	return unit, true
}
