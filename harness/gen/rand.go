// Package gen holds the seeded generators: PRNG, data families, partitions.
package gen

import "hash/fnv"

// Rand is a splitmix64 generator. Everything random in the harness derives
// from (VERIF_SEED, property id, case index) through it, so a case is a
// function of those three values.
type Rand struct{ s uint64 }

func New(seed uint64) *Rand { return &Rand{s: seed} }

// For derives an independent stream for (seed, label, index).
func For(seed uint64, label string, idx int) *Rand {
	h := fnv.New64a()
	h.Write([]byte(label))
	r := &Rand{s: seed*0x9E3779B97F4A7C15 ^ h.Sum64() ^ (uint64(idx)+1)*0xD1B54A32D192ED03}
	r.U64()
	r.U64()
	return r
}

func (r *Rand) U64() uint64 {
	r.s += 0x9E3779B97F4A7C15
	z := r.s
	z = (z ^ (z >> 30)) * 0xBF58476D1CE4E5B9
	z = (z ^ (z >> 27)) * 0x94D049BB133111EB
	return z ^ (z >> 31)
}

// Intn returns a value in [0,n). n<=0 returns 0.
func (r *Rand) Intn(n int) int {
	if n <= 0 {
		return 0
	}
	return int(r.U64() % uint64(n))
}

// Range returns a value in [lo,hi].
func (r *Rand) Range(lo, hi int) int {
	if hi <= lo {
		return lo
	}
	return lo + r.Intn(hi-lo+1)
}

func (r *Rand) Bool() bool { return r.U64()&1 == 1 }

// Chance is true with probability num/den.
func (r *Rand) Chance(num, den int) bool { return r.Intn(den) < num }

func (r *Rand) Float() float64 { return float64(r.U64()>>11) / float64(1<<53) }

func (r *Rand) Bytes(n int) []byte {
	b := make([]byte, n)
	r.Fill(b)
	return b
}

func (r *Rand) Fill(b []byte) {
	i := 0
	for ; i+8 <= len(b); i += 8 {
		v := r.U64()
		b[i] = byte(v)
		b[i+1] = byte(v >> 8)
		b[i+2] = byte(v >> 16)
		b[i+3] = byte(v >> 24)
		b[i+4] = byte(v >> 32)
		b[i+5] = byte(v >> 40)
		b[i+6] = byte(v >> 48)
		b[i+7] = byte(v >> 56)
	}
	if i < len(b) {
		v := r.U64()
		for ; i < len(b); i++ {
			b[i] = byte(v)
			v >>= 8
		}
	}
}

// Pick returns one of the ints.
func (r *Rand) Pick(v ...int) int { return v[r.Intn(len(v))] }

// Perm returns a permutation of 0..n-1.
func (r *Rand) Perm(n int) []int {
	p := make([]int, n)
	for i := range p {
		p[i] = i
	}
	for i := n - 1; i > 0; i-- {
		j := r.Intn(i + 1)
		p[i], p[j] = p[j], p[i]
	}
	return p
}
