package main

import (
	"bytes"
	"encoding/hex"
	"fmt"
	"io"
	"os"

	"fgverif/refinf"

	"github.com/intel/fastgo/compress/flate"
)

type chunks struct {
	b []byte
	n int
}

func (c *chunks) Read(p []byte) (int, error) {
	if len(c.b) == 0 {
		return 0, io.EOF
	}
	n := c.n
	if n > len(c.b) {
		n = len(c.b)
	}
	if n > len(p) {
		n = len(p)
	}
	copy(p, c.b[:n])
	c.b = c.b[n:]
	return n, nil
}

func main() {
	in, _ := hex.DecodeString(os.Args[1])
	res := refinf.Inflate(in, refinf.Options{})
	fmt.Println("ref:", res, res.Reason)
	for _, b := range res.Blocks {
		fmt.Printf("  block %+v\n", b)
	}
	for _, n := range []int{1 << 20, 1, 2, 3, 5, 7, 13} {
		out, err := io.ReadAll(flate.NewReader(&chunks{b: append([]byte(nil), in...), n: n}))
		fmt.Printf("chunk %d: %d bytes %q err=%v\n", n, len(out), trunc(out), err)
	}
	out, err := io.ReadAll(flate.NewReader(bytes.NewReader(in)))
	fmt.Printf("bytes.Reader: %d bytes err=%v\n", len(out), err)
}

func trunc(b []byte) []byte {
	if len(b) > 20 {
		return b[:20]
	}
	return b
}
