package main

import (
	"bytes"
	stdgzip "compress/gzip"
	"fmt"
	"math/rand"

	"fgverif/refinf"
	"io"

	fgzip "github.com/intel/fastgo/compress/gzip"
)

func demoText(n int, seed int64, alpha int) []byte {
	rng := rand.New(rand.NewSource(seed))
	words := make([][]byte, 60)
	for i := range words {
		w := make([]byte, 2+rng.Intn(6))
		for j := range w {
			w[j] = byte('a' + rng.Intn(alpha))
		}
		words[i] = w
	}
	var b []byte
	for len(b) < n {
		if rng.Intn(3) == 0 {
			b = append(b, byte('a'+rng.Intn(alpha)))
		} else {
			b = append(b, words[rng.Intn(len(words))]...)
		}
	}
	return b[:n]
}

func main() {
	want := demoText(400000, 58, 4)
	var buf bytes.Buffer
	zw, _ := stdgzip.NewWriterLevel(&buf, 6)
	zw.Write(want)
	zw.Close()
	full := buf.Bytes()
	var marks []int
	for m := 65536; m < len(want); m += 32768 {
		marks = append(marks, m)
	}
	res := refinf.Inflate(full[10:len(full)-8], refinf.Options{Marks: marks, KeepBlocks: 1})
	for i, mb := range res.MarkBits {
		fmt.Println(i, marks[i], 10+mb/8)
	}
	fmt.Println(len(full))
	for zi, mb := range res.MarkBits {
		for t := 10 + int(mb/8) - 20; t <= 10+int(mb/8)+60+100*zi; t++ {
			if t <= 0 || t >= len(full) {
				continue
			}
			zr, err := fgzip.NewReader(bytes.NewReader(full[:t]))
			if err != nil {
				continue
			}
			got, err := io.ReadAll(zr)
			if len(got) > len(want) || !bytes.Equal(got, want[:len(got)]) {
				fmt.Println("BAD cut", t, "mark", zi, len(got), err)
			}
		}
	}
}
