// fgmon is the runner of the fastgo monitors: `fgmon check` is the parent that
// shards a property's case list over forced dispatch levels and build
// flavours; `fgmon child` executes one shard; `fgmon replay` re-executes the
// case named by a replay file.
package main

import (
	"encoding/json"
	"flag"
	"fmt"
	"os"
	"runtime/pprof"
	"strconv"
	"strings"

	"fgverif/mon"
	"fgverif/props"
)

func parseBins(s string) map[string]string {
	m := map[string]string{}
	for _, kv := range strings.Split(s, ",") {
		if i := strings.Index(kv, "="); i > 0 {
			m[kv[:i]] = kv[i+1:]
		}
	}
	return m
}

func seedFromEnv() uint64 {
	if s := os.Getenv("VERIF_SEED"); s != "" {
		if v, err := strconv.ParseUint(s, 10, 64); err == nil {
			return v
		}
		if v, err := strconv.ParseInt(s, 10, 64); err == nil {
			return uint64(v)
		}
	}
	return 1
}

func main() {
	if len(os.Args) < 2 {
		fmt.Fprintln(os.Stderr, "usage: fgmon check|child|replay|list ...")
		os.Exit(2)
	}
	switch os.Args[1] {
	case "list":
		for _, id := range props.IDs() {
			fmt.Println(id)
		}
	case "flavours":
		fs := flag.NewFlagSet("flavours", flag.ExitOnError)
		var prop, tier string
		fs.StringVar(&prop, "prop", "", "")
		fs.StringVar(&tier, "tier", "quick", "")
		fs.Parse(os.Args[2:])
		p := props.Get(prop)
		if p == nil {
			os.Exit(2)
		}
		fl := []string{"plain"}
		if pl, ok := p.(mon.Planner); ok {
			fl = nil
			for _, sp := range pl.Plan(tier) {
				fl = append(fl, sp.Flavour)
			}
		}
		fmt.Println(strings.Join(fl, " "))
	case "child":
		fs := flag.NewFlagSet("child", flag.ExitOnError)
		var a mon.ChildArgs
		var seed string
		fs.StringVar(&a.Prop, "prop", "", "")
		fs.StringVar(&a.Tier, "tier", "quick", "")
		fs.StringVar(&seed, "seed", "1", "")
		fs.IntVar(&a.Level, "level", 0, "")
		fs.StringVar(&a.Flavour, "flavour", "plain", "")
		fs.IntVar(&a.Shard, "shard", 0, "")
		fs.IntVar(&a.NShards, "nshards", 1, "")
		fs.IntVar(&a.Every, "every", 1, "")
		fs.StringVar(&a.Out, "out", "", "")
		fs.StringVar(&a.Impl, "impl", "", "")
		fs.IntVar(&a.Only, "only", -1, "")
		var prof string
		fs.StringVar(&prof, "cpuprofile", "", "")
		fs.Parse(os.Args[2:])
		if prof != "" {
			if f, err := os.Create(prof); err == nil {
				pprof.StartCPUProfile(f)
				defer pprof.StopCPUProfile()
			}
		}
		a.Seed, _ = strconv.ParseUint(seed, 10, 64)
		p := props.Get(a.Prop)
		if p == nil {
			fmt.Fprintln(os.Stderr, "unknown property", a.Prop)
			os.Exit(2)
		}
		rc := mon.RunChild(p, a)
		if prof != "" {
			pprof.StopCPUProfile()
		}
		os.Exit(rc)
	case "check", "replay":
		fs := flag.NewFlagSet(os.Args[1], flag.ExitOnError)
		var prop, tier, bins, verif, work, impl, file string
		var workers int
		fs.StringVar(&prop, "prop", "", "")
		fs.StringVar(&tier, "tier", "quick", "")
		fs.StringVar(&bins, "bins", "", "")
		fs.StringVar(&verif, "verif", "/verif", "")
		fs.StringVar(&work, "work", "", "")
		fs.StringVar(&impl, "impl", "", "")
		fs.StringVar(&file, "file", "", "")
		fs.IntVar(&workers, "workers", 0, "")
		fs.Parse(os.Args[2:])
		a := mon.ParentArgs{Tier: tier, Seed: seedFromEnv(), Bins: parseBins(bins), Impl: impl, VerifDir: verif, WorkDir: work, Workers: workers}
		if os.Args[1] == "replay" {
			b, err := os.ReadFile(file)
			if err != nil {
				fmt.Fprintln(os.Stderr, err)
				os.Exit(2)
			}
			var rp mon.Replay
			if err := json.Unmarshal(b, &rp); err != nil {
				fmt.Fprintln(os.Stderr, err)
				os.Exit(2)
			}
			if rp.Case < 0 {
				fmt.Printf("replay: this report (%s) is not tied to one case; re-run the check at seed %d\n", rp.Kind, rp.Seed)
				os.Exit(3)
			}
			prop = rp.Property
			a.Tier = rp.Tier
			a.Seed = rp.Seed
			a.Replay = &rp
		}
		a.Prop = props.Get(prop)
		if a.Prop == nil {
			fmt.Fprintln(os.Stderr, "unknown property", prop)
			os.Exit(2)
		}
		os.Exit(mon.RunParent(a))
	default:
		fmt.Fprintln(os.Stderr, "unknown subcommand", os.Args[1])
		os.Exit(2)
	}
}
