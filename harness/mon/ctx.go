// Package mon is the monitor runtime: per-case context, the child-process case
// loop with its event log, the parent that shards cases over forced dispatch
// levels and build flavours, verdicts, replay files, known findings, evidence.
package mon

import (
	"crypto/sha256"
	"encoding/hex"
	"encoding/json"
	"fmt"
	"os"
	"runtime/debug"
	"sort"
	"strings"
	"sync"

	"fgverif/gen"
	"fgverif/impl"
)

// Prop is one property monitor.
type Prop interface {
	ID() string
	// EvidenceLevel is "exploration" or "fault_enumeration".
	EvidenceLevel() string
	// Rule says how cases are generated and what makes one non-trivial.
	Rule() string
	// NumCases is the fixed, seed-independent length of the tier's case list.
	NumCases(tier string) int
	// Run executes case i at the level/flavour of c.
	Run(c *Ctx, i int)
}

// Planner lets a property choose build flavours, levels and sampling.
type Planner interface {
	Plan(tier string) []RunSpec
}

// RunSpec is one (flavour × levels) pass over the case list.
type RunSpec struct {
	Flavour string // plain, checkptr, race, asan
	Levels  []int  // nil = every runnable level
	Every   int    // run every k-th case only (0/1 = all)
	Shards  int    // 0 = default
}

// Offline is implemented by properties with a checker over the joined logs.
type Offline interface {
	Offline(p *Joined)
}

// Budgeter overrides the per-case CPU budget in seconds.
type Budgeter interface {
	CaseCPUBudget(tier string) float64
}

// Assumer lists the assumptions written into the evidence file.
type Assumer interface {
	Assumptions() []string
}

// Violation is what a monitor reports.
type Violation struct {
	Prop    string                 `json:"property"`
	Sig     string                 `json:"signature"`
	What    string                 `json:"what"`
	Case    int                    `json:"case"`
	Level   int                    `json:"level"`
	Flavour string                 `json:"flavour"`
	Detail  map[string]interface{} `json:"detail,omitempty"`
}

// Ctx is handed to Prop.Run for one case.
type Ctx struct {
	Prop    string
	Tier    string
	Seed    uint64
	Level   int
	Flavour string
	API     *impl.API
	Control bool // running against the standard library
	Case    int
	R       *gen.Rand

	mu       sync.Mutex
	evals    int
	digests  []string
	extra    map[string]interface{}
	viols    []Violation
	counters map[string]int64
	maxes    map[string]float64
	samples  []interface{}
	nsample  int
}

// Eval counts n executions of code under test.
func (c *Ctx) Eval(n int) {
	c.mu.Lock()
	c.evals += n
	c.mu.Unlock()
}

// Nontrivial registers one distinct non-trivial case by the digest of the
// parts that identify it.
func (c *Ctx) Nontrivial(parts ...interface{}) {
	h := sha256.New()
	for _, p := range parts {
		switch v := p.(type) {
		case []byte:
			h.Write(v)
		case string:
			h.Write([]byte(v))
		default:
			fmt.Fprint(h, v)
		}
		h.Write([]byte{0})
	}
	d := hex.EncodeToString(h.Sum(nil)[:8])
	c.mu.Lock()
	c.digests = append(c.digests, d)
	c.mu.Unlock()
}

// Count adds to a named observation counter.
func (c *Ctx) Count(key string, n int) {
	c.mu.Lock()
	c.counters[key] += int64(n)
	c.mu.Unlock()
}

// Max keeps the maximum of a named observation.
func (c *Ctx) Max(key string, v float64) {
	c.mu.Lock()
	if old, ok := c.maxes[key]; !ok || v > old {
		c.maxes[key] = v
	}
	c.mu.Unlock()
}

// Sample keeps a few actual cases for the evidence file.
func (c *Ctx) Sample(v interface{}) {
	c.mu.Lock()
	c.nsample++
	if len(c.samples) < 6 {
		c.samples = append(c.samples, v)
	}
	c.mu.Unlock()
}

// Extra attaches a per-case value to the case-end record (cross-level joins).
func (c *Ctx) Extra(key string, v interface{}) {
	c.mu.Lock()
	if c.extra == nil {
		c.extra = map[string]interface{}{}
	}
	c.extra[key] = v
	c.mu.Unlock()
}

// Violate reports a violation. sig identifies the failing circumstance (call
// site, source kind, history shape) and is what known findings are keyed on.
func (c *Ctx) Violate(sig, what string, detail map[string]interface{}) {
	c.mu.Lock()
	defer c.mu.Unlock()
	if len(c.viols) >= 40 {
		return
	}
	c.viols = append(c.viols, Violation{Prop: c.Prop, Sig: sig, What: what, Case: c.Case, Level: c.Level, Flavour: c.Flavour, Detail: detail})
}

// Violated says whether this case already reported.
func (c *Ctx) Violated() bool {
	c.mu.Lock()
	defer c.mu.Unlock()
	return len(c.viols) > 0
}

// Safe runs f and converts a panic into (value, trimmed stack).
func Safe(f func()) (pv interface{}, stack string) {
	defer func() {
		if r := recover(); r != nil {
			pv = r
			stack = TrimStack(string(debug.Stack()))
		}
	}()
	f()
	return nil, ""
}

// TrimStack keeps the fastgo frames of a stack trace.
func TrimStack(s string) string {
	var keep []string
	lines := strings.Split(s, "\n")
	for i := 0; i < len(lines); i++ {
		if strings.Contains(lines[i], "github.com/intel/fastgo") && !strings.HasPrefix(lines[i], "\t") {
			fn := lines[i]
			if j := strings.LastIndex(fn, "("); j > 0 {
				fn = fn[:j]
			}
			loc := ""
			if i+1 < len(lines) {
				loc = strings.TrimSpace(lines[i+1])
				if j := strings.Index(loc, " +0x"); j > 0 {
					loc = loc[:j]
				}
				if j := strings.LastIndex(loc, "/"); j >= 0 {
					loc = loc[j+1:]
				}
			}
			keep = append(keep, fn+" "+loc)
			if len(keep) >= 6 {
				break
			}
		}
	}
	return strings.Join(keep, " <- ")
}

// PanicSite returns the innermost fastgo function of a trimmed stack, without
// line numbers: the call-site part of a panic signature.
func PanicSite(trimmed string) string {
	first := strings.Split(trimmed, " <- ")[0]
	if j := strings.Index(first, " "); j > 0 {
		first = first[:j]
	}
	first = strings.TrimPrefix(first, "github.com/intel/fastgo/")
	return first
}

// Hex shortens bytes for samples and replay files.
func Hex(b []byte, max int) string {
	if len(b) <= max {
		return hex.EncodeToString(b)
	}
	return hex.EncodeToString(b[:max]) + fmt.Sprintf("…(%d bytes)", len(b))
}

func Sha(b []byte) string {
	s := sha256.Sum256(b)
	return hex.EncodeToString(s[:8])
}

// ---- event log records ----

type rec struct {
	T   string                 `json:"t"`           // b, e, v, s, hang
	C   int                    `json:"c,omitempty"` // case
	Ev  int                    `json:"ev,omitempty"`
	D   []string               `json:"d,omitempty"`
	X   map[string]interface{} `json:"x,omitempty"`
	V   *Violation             `json:"v,omitempty"`
	Cnt map[string]int64       `json:"cnt,omitempty"`
	Max map[string]float64     `json:"max,omitempty"`
	Smp []interface{}          `json:"smp,omitempty"`
	Lvl int                    `json:"lvl,omitempty"`
	Det int                    `json:"det,omitempty"`
	Msg string                 `json:"msg,omitempty"`
}

func writeRec(f *os.File, r *rec) {
	b, err := json.Marshal(r)
	if err != nil {
		b, _ = json.Marshal(&rec{T: "err", Msg: err.Error()})
	}
	b = append(b, '\n')
	f.Write(b)
}

func sortedKeys(m map[string]int64) []string {
	k := make([]string, 0, len(m))
	for s := range m {
		k = append(k, s)
	}
	sort.Strings(k)
	return k
}
