package mon

import (
	"fmt"
	"os"
	"runtime"
	"runtime/debug"
	"sync/atomic"
	"syscall"
	"time"

	"fgverif/gen"
	"fgverif/impl"
)

type ChildArgs struct {
	Prop    string
	Tier    string
	Seed    uint64
	Level   int
	Flavour string
	Shard   int
	NShards int
	Every   int
	Out     string
	Impl    string
	Only    int // >= 0: run just this case (replay)
}

func cpuSeconds() float64 {
	var ru syscall.Rusage
	if syscall.Getrusage(syscall.RUSAGE_SELF, &ru) != nil {
		return 0
	}
	return float64(ru.Utime.Sec) + float64(ru.Utime.Usec)/1e6 + float64(ru.Stime.Sec) + float64(ru.Stime.Usec)/1e6
}

// Exit codes of a child.
const (
	ExitOK       = 0
	ExitHang     = 97
	ExitMismatch = 98
)

// RunChild executes the shard's cases, logging before and after each.
func RunChild(p Prop, a ChildArgs) int {
	f, err := os.OpenFile(a.Out, os.O_CREATE|os.O_WRONLY|os.O_TRUNC, 0o644)
	if err != nil {
		fmt.Fprintln(os.Stderr, "child: cannot open log:", err)
		return 2
	}
	defer f.Close()
	api := impl.Fastgo
	control := false
	if a.Impl == "stdlib" {
		api = impl.Stdlib
		control = true
	}
	actual := impl.ArchLevel()
	writeRec(f, &rec{T: "s", Lvl: actual, Det: impl.DetectedLevel()})
	if !control && actual != a.Level {
		writeRec(f, &rec{T: "mismatch", Lvl: actual})
		return ExitMismatch
	}
	// Two Ps: enough for the case, the watchdog and the collector, and it bounds
	// the CPU time a process can burn per wall second (idle Ps of a Go process
	// spin for work, which inflated the per-case CPU time thirty-fold on a
	// loaded 16-core machine when every child had 16 of them). Monitors that
	// need more (C17) set GOMAXPROCS themselves per case.
	runtime.GOMAXPROCS(2)
	budget := 600.0
	if b, ok := p.(Budgeter); ok {
		budget = b.CaseCPUBudget(a.Tier)
	}
	switch a.Flavour {
	case "checkptr":
		budget *= 3
	case "race":
		budget *= 10
	case "asan":
		budget *= 25
	}
	// Backstop: the kernel kills the process if its total CPU time explodes.
	n := p.NumCases(a.Tier)
	hard := uint64(budget*4) + 3600
	syscall.Setrlimit(syscall.RLIMIT_CPU, &syscall.Rlimit{Cur: hard, Max: hard})

	// Hang recognition by CPU time consumed inside one case (not wall clock:
	// CPU time does not depend on how loaded the machine is).
	var curCase int64 = -1
	var caseStartCPU atomic.Value
	caseStartCPU.Store(cpuSeconds())
	go func() {
		for {
			time.Sleep(200 * time.Millisecond)
			cc := atomic.LoadInt64(&curCase)
			if cc < 0 {
				continue
			}
			used := cpuSeconds() - caseStartCPU.Load().(float64)
			if used > budget && atomic.LoadInt64(&curCase) == cc {
				writeRec(f, &rec{T: "hang", C: int(cc), Msg: fmt.Sprintf("case used %.0f CPU-seconds (budget %.0f)", used, budget)})
				os.Exit(ExitHang)
			}
		}
	}()

	c := &Ctx{Prop: a.Prop, Tier: a.Tier, Seed: a.Seed, Level: a.Level, Flavour: a.Flavour, API: api, Control: control,
		counters: map[string]int64{}, maxes: map[string]float64{}}
	every := a.Every
	if every < 1 {
		every = 1
	}
	runOne := func(i int) {
		writeRec(f, &rec{T: "b", C: i})
		c.Case = i
		c.R = gen.For(a.Seed, a.Prop+"/"+a.Tier, i)
		c.evals = 0
		c.digests = nil
		c.extra = nil
		c.viols = nil
		caseStartCPU.Store(cpuSeconds())
		atomic.StoreInt64(&curCase, int64(i))
		func() {
			defer func() {
				if r := recover(); r != nil {
					st := TrimStack(string(debug.Stack()))
					site := PanicSite(st)
					if site == "" {
						// a panic with no fastgo frame is a harness bug: surface it loudly
						writeRec(f, &rec{T: "err", C: i, Msg: fmt.Sprintf("harness panic: %v\n%s", r, debug.Stack())})
						return
					}
					c.Violate("panic|"+site, fmt.Sprintf("panic: %v", r), map[string]interface{}{"stack": st})
				}
			}()
			p.Run(c, i)
		}()
		atomic.StoreInt64(&curCase, -1)
		for k := range c.viols {
			writeRec(f, &rec{T: "v", C: i, V: &c.viols[k]})
		}
		writeRec(f, &rec{T: "e", C: i, Ev: c.evals, D: c.digests, X: c.extra})
	}
	if a.Only >= 0 {
		runOne(a.Only)
	} else {
		k := 0
		for i := 0; i < n; i++ {
			if i%every != 0 {
				continue
			}
			if k%a.NShards == a.Shard {
				runOne(i)
			}
			k++
		}
	}
	writeRec(f, &rec{T: "done", Cnt: c.counters, Max: c.maxes, Smp: c.samples})
	return ExitOK
}
