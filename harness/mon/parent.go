package mon

import (
	"bufio"
	"bytes"
	"context"
	"crypto/sha256"
	"encoding/hex"
	"encoding/json"
	"fmt"
	"os"
	"os/exec"
	"path/filepath"
	"runtime"
	"sort"
	"strconv"
	"strings"
	"sync"
	"syscall"
	"time"
)

// RunnableLevels derives the dispatch levels this CPU can execute from
// /proc/cpuinfo, with the feature sets of internal/cpu/detect_amd64.s minus the
// vendor test.
func RunnableLevels() (run []int, skipped map[string]string) {
	skipped = map[string]string{}
	flags := map[string]bool{}
	if b, err := os.ReadFile("/proc/cpuinfo"); err == nil {
		for _, line := range strings.Split(string(b), "\n") {
			if strings.HasPrefix(line, "flags") {
				for _, f := range strings.Fields(line) {
					flags[f] = true
				}
				break
			}
		}
	}
	has := func(names ...string) (bool, string) {
		for _, n := range names {
			if !flags[n] {
				return false, n
			}
		}
		return true, ""
	}
	run = []int{0}
	if runtime.GOARCH != "amd64" {
		for _, l := range []string{"1", "2", "3", "4"} {
			skipped[l] = "not amd64"
		}
		return
	}
	ok1, m1 := has("pni", "ssse3", "cx16", "sse4_1", "sse4_2", "popcnt", "lahf_lm")
	if !ok1 {
		for _, l := range []string{"1", "2", "3", "4"} {
			skipped[l] = "cpu lacks " + m1
		}
		return
	}
	run = append(run, 1, 2)
	ok3, m3 := has("avx", "avx2", "bmi1", "bmi2", "fma", "movbe", "f16c", "xsave", "abm")
	if !ok3 {
		skipped["3"] = "cpu lacks " + m3
		skipped["4"] = "cpu lacks " + m3
		return
	}
	run = append(run, 3)
	ok4, m4 := has("avx512f", "avx512dq", "avx512cd", "avx512bw", "avx512vl")
	if !ok4 {
		skipped["4"] = "cpu lacks " + m4
		return
	}
	run = append(run, 4)
	return
}

type ParentArgs struct {
	Prop     Prop
	Tier     string
	Seed     uint64
	Bins     map[string]string // flavour -> binary
	Impl     string
	VerifDir string
	WorkDir  string // scratch for logs
	Replay   *Replay
	Workers  int
}

// Replay is the content of a replay file.
type Replay struct {
	Property string     `json:"property"`
	Tier     string     `json:"tier"`
	Seed     uint64     `json:"seed"`
	Case     int        `json:"case"`
	Level    int        `json:"level"`
	Flavour  string     `json:"flavour"`
	Kind     string     `json:"kind"` // violation, crash, hang, race, offline
	Viol     *Violation `json:"violation,omitempty"`
	Stderr   string     `json:"stderr_tail,omitempty"`
	Note     string     `json:"note,omitempty"`
}

// Joined is everything the parent learned from the children's logs.
type Joined struct {
	PropID     string
	Tier       string
	Seed       uint64
	Levels     []int
	Skipped    map[string]string
	Flavours   []string
	Evals      int
	Digests    map[string]struct{}
	Counters   map[string]int64
	PerLevel   map[string]map[string]int64 // "flavour/L" -> counters
	Maxes      map[string]float64
	Samples    []interface{}
	Violations []Violation
	kinds      map[int]string // index into Violations -> replay kind
	stderrs    map[int]string
	// CaseX: case -> "flavour/L" -> extra map
	CaseX        map[int]map[string]map[string]interface{}
	Warnings     []string
	Inconclusive []string
	RaceBlocks   int
	perSig       map[string]int
	// TotalViolations counts every report, including those not kept.
	TotalViolations int
	Children        int
	CasesRun        int
}

func (j *Joined) AddViolation(v Violation, kind, stderr string) {
	if j.perSig == nil {
		j.perSig = map[string]int{}
	}
	j.perSig[v.Sig]++
	j.TotalViolations++
	if j.perSig[v.Sig] > 3 || len(j.Violations) >= 3000 {
		return
	}
	j.Violations = append(j.Violations, v)
	j.kinds[len(j.Violations)-1] = kind
	if stderr != "" {
		j.stderrs[len(j.Violations)-1] = stderr
	}
}

func (j *Joined) Warn(f string, a ...interface{}) {
	j.Warnings = append(j.Warnings, fmt.Sprintf(f, a...))
}

type job struct {
	spec  RunSpec
	level int
	shard int
	n     int
	log   string
	errf  string
	racep string
	only  int
}

func tail(path string, n int) string {
	b, err := os.ReadFile(path)
	if err != nil {
		return ""
	}
	if len(b) > n {
		b = b[len(b)-n:]
	}
	return string(b)
}

func head(path string, n int) string {
	b, err := os.ReadFile(path)
	if err != nil {
		return ""
	}
	if len(b) > n {
		b = b[:n]
	}
	return string(b)
}

func crashSig(stderr string) string {
	for _, line := range strings.Split(stderr, "\n") {
		l := strings.TrimSpace(line)
		if strings.HasPrefix(l, "fatal error:") || strings.HasPrefix(l, "panic:") || strings.HasPrefix(l, "SIG") || strings.HasPrefix(l, "unexpected fault") || strings.Contains(l, "AddressSanitizer") {
			if len(l) > 80 {
				l = l[:80]
			}
			// strip addresses
			f := strings.Fields(l)
			var keep []string
			for _, w := range f {
				if strings.HasPrefix(w, "0x") || strings.HasPrefix(w, "addr=") || strings.HasPrefix(w, "pc=") {
					continue
				}
				keep = append(keep, w)
			}
			return strings.Join(keep, " ")
		}
	}
	return "unknown"
}

// RunParent runs the whole check and returns the process exit code.
func RunParent(a ParentArgs) int {
	t0 := time.Now()
	p := a.Prop
	id := p.ID()
	levels, skipped := RunnableLevels()

	if a.Impl == "stdlib" {
		levels = []int{0}
	}
	plan := []RunSpec{{Flavour: "plain"}}
	if pl, ok := p.(Planner); ok {
		plan = pl.Plan(a.Tier)
	}
	j := &Joined{PropID: id, Tier: a.Tier, Seed: a.Seed, Levels: levels, Skipped: skipped,
		Digests: map[string]struct{}{}, Counters: map[string]int64{}, PerLevel: map[string]map[string]int64{},
		Maxes: map[string]float64{}, kinds: map[int]string{}, stderrs: map[int]string{},
		CaseX: map[int]map[string]map[string]interface{}{}}
	workers := a.Workers
	if workers <= 0 {
		workers = runtime.NumCPU()
	}
	var jobs []*job
	if a.Replay != nil && a.Replay.Kind == "offline" {
		// a cross-level report: re-run the case at every level and join again
		for _, l := range levels {
			jobs = append(jobs, &job{spec: RunSpec{Flavour: a.Replay.Flavour}, level: l, n: 1, only: a.Replay.Case})
		}
	} else if a.Replay != nil {
		jobs = append(jobs, &job{spec: RunSpec{Flavour: a.Replay.Flavour}, level: a.Replay.Level, n: 1, only: a.Replay.Case})
		j.Levels = []int{a.Replay.Level}
	} else {
		for _, sp := range plan {
			if _, ok := a.Bins[sp.Flavour]; !ok {
				j.Inconclusive = append(j.Inconclusive, "no binary for flavour "+sp.Flavour)
				continue
			}
			if !containsStr(j.Flavours, sp.Flavour) {
				j.Flavours = append(j.Flavours, sp.Flavour)
			}
			lv := sp.Levels
			if lv == nil {
				lv = levels
			}
			for _, l := range lv {
				okl := false
				for _, r := range levels {
					if r == l {
						okl = true
					}
				}
				if !okl && a.Impl != "stdlib" {
					continue
				}
				ns := sp.Shards
				if ns <= 0 {
					ns = workers / len(lv)
					if ns < 1 {
						ns = 1
					}
				}
				for s := 0; s < ns; s++ {
					jobs = append(jobs, &job{spec: sp, level: l, shard: s, n: ns, only: -1})
				}
			}
		}
	}
	for i, jb := range jobs {
		base := filepath.Join(a.WorkDir, fmt.Sprintf("%s-%s-L%d-s%d-%d", id, jb.spec.Flavour, jb.level, jb.shard, i))
		jb.log = base + ".jsonl"
		jb.errf = base + ".stderr"
		jb.racep = base + ".race"
	}
	wall := 40 * time.Minute
	if a.Tier == "thorough" {
		wall = 5 * time.Hour
	}
	var mu sync.Mutex
	var wg sync.WaitGroup
	sem := make(chan struct{}, workers)
	for _, jb := range jobs {
		wg.Add(1)
		sem <- struct{}{}
		go func(jb *job) {
			defer wg.Done()
			defer func() { <-sem }()
			ctx, cancel := context.WithTimeout(context.Background(), wall)
			defer cancel()
			args := []string{"child", "-prop", id, "-tier", a.Tier, "-seed", strconv.FormatUint(a.Seed, 10),
				"-level", strconv.Itoa(jb.level), "-flavour", jb.spec.Flavour, "-shard", strconv.Itoa(jb.shard),
				"-nshards", strconv.Itoa(jb.n), "-every", strconv.Itoa(jb.spec.Every), "-out", jb.log, "-only", strconv.Itoa(jb.only)}
			if a.Impl != "" {
				args = append(args, "-impl", a.Impl)
			}
			cmd := exec.CommandContext(ctx, a.Bins[jb.spec.Flavour], args...)
			cmd.Env = append(os.Environ(), "FASTGO_VERIF_ARCHLEVEL="+strconv.Itoa(jb.level))
			if jb.spec.Flavour == "race" {
				cmd.Env = append(cmd.Env, "GORACE=halt_on_error=0 log_path="+jb.racep)
			}
			if jb.spec.Flavour == "asan" {
				cmd.Env = append(cmd.Env, "ASAN_OPTIONS=detect_leaks=0:abort_on_error=1")
			}
			ef, _ := os.Create(jb.errf)
			cmd.Stdout = ef
			cmd.Stderr = ef
			err := cmd.Run()
			ef.Close()
			timedOut := ctx.Err() == context.DeadlineExceeded
			mu.Lock()
			defer mu.Unlock()
			j.absorb(jb, cmd, err, timedOut)
		}(jb)
	}
	wg.Wait()

	if off, ok := p.(Offline); ok && (a.Replay == nil || a.Replay.Kind == "offline") {
		off.Offline(j)
	}
	if a.Replay == nil && len(j.Digests) < 2 && len(j.Violations) == 0 {
		j.Inconclusive = append(j.Inconclusive, fmt.Sprintf("only %d distinct non-trivial cases observed", len(j.Digests)))
	}
	return j.finish(a, p, time.Since(t0).Seconds())
}

func (j *Joined) absorb(jb *job, cmd *exec.Cmd, runErr error, timedOut bool) {
	j.Children++
	key := fmt.Sprintf("%s/L%d", jb.spec.Flavour, jb.level)
	f, err := os.Open(jb.log)
	lastBegin, ended := -1, true
	sawDone := false
	hang := false
	if err == nil {
		sc := bufio.NewScanner(f)
		sc.Buffer(make([]byte, 1<<20), 64<<20)
		for sc.Scan() {
			var r rec
			if json.Unmarshal(sc.Bytes(), &r) != nil {
				continue
			}
			switch r.T {
			case "s":
			case "mismatch":
				j.Inconclusive = append(j.Inconclusive, fmt.Sprintf("child asked for level %d runs at level %d (hook H1 not effective)", jb.level, r.Lvl))
			case "b":
				lastBegin, ended = r.C, false
			case "e":
				ended = true
				j.CasesRun++
				j.Evals += r.Ev
				for _, d := range r.D {
					j.Digests[d] = struct{}{}
				}
				if r.X != nil {
					m := j.CaseX[r.C]
					if m == nil {
						m = map[string]map[string]interface{}{}
						j.CaseX[r.C] = m
					}
					m[key] = r.X
				}
			case "v":
				if r.V != nil {
					j.AddViolation(*r.V, "violation", "")
				}
			case "hang":
				hang = true
				j.AddViolation(Violation{Prop: j.PropID, Sig: "hang", What: "a call did not terminate: " + r.Msg, Case: r.C, Level: jb.level, Flavour: jb.spec.Flavour}, "hang", "")
			case "err":
				j.Inconclusive = append(j.Inconclusive, "harness error: "+r.Msg)
			case "done":
				sawDone = true
				pl := j.PerLevel[key]
				if pl == nil {
					pl = map[string]int64{}
					j.PerLevel[key] = pl
				}
				for k, v := range r.Cnt {
					j.Counters[k] += v
					pl[k] += v
				}
				for k, v := range r.Max {
					if old, ok := j.Maxes[k]; !ok || v > old {
						j.Maxes[k] = v
					}
				}
				for _, s := range r.Smp {
					if len(j.Samples) < 8 {
						j.Samples = append(j.Samples, s)
					}
				}
			}
		}
		f.Close()
	} else {
		j.Inconclusive = append(j.Inconclusive, "child log missing: "+err.Error())
	}
	if timedOut {
		j.Inconclusive = append(j.Inconclusive, fmt.Sprintf("wall-clock watchdog fired for %s shard %d", key, jb.shard))
	} else if !sawDone && !hang {
		// The process died. Attribute to the case that had begun and not ended.
		st := tail(jb.errf, 6000)
		hd := head(jb.errf, 3000)
		killedByCPU := false
		if cmd.ProcessState != nil {
			if ws, ok := cmd.ProcessState.Sys().(syscall.WaitStatus); ok && ws.Signaled() && ws.Signal() == syscall.SIGKILL {
				ru, _ := cmd.ProcessState.SysUsage().(*syscall.Rusage)
				if ru != nil && ru.Utime.Sec+ru.Stime.Sec > 3000 {
					killedByCPU = true
				}
			}
		}
		switch {
		case !ended && killedByCPU:
			j.AddViolation(Violation{Prop: j.PropID, Sig: "hang", What: "child killed by RLIMIT_CPU inside a case", Case: lastBegin, Level: jb.level, Flavour: jb.spec.Flavour}, "hang", st)
		case !ended:
			sig := crashSig(hd)
			site := PanicSite(TrimStack(hd + st))
			j.AddViolation(Violation{Prop: j.PropID, Sig: "crash|" + sig + "|" + site, What: "process died inside a case: " + sig, Case: lastBegin, Level: jb.level, Flavour: jb.spec.Flavour}, "crash", hd+"\n…\n"+st)
		default:
			j.Inconclusive = append(j.Inconclusive, fmt.Sprintf("child %s shard %d ended without a done record outside any case (%v): %s", key, jb.shard, runErr, crashSig(hd)))
		}
	}
	if jb.spec.Flavour == "race" {
		matches, _ := filepath.Glob(jb.racep + "*")
		for _, m := range matches {
			b, _ := os.ReadFile(m)
			for _, blk := range bytes.Split(b, []byte("==================")) {
				if !bytes.Contains(blk, []byte("WARNING: DATA RACE")) {
					continue
				}
				j.RaceBlocks++
				sig := raceSig(string(blk))
				txt := string(blk)
				if len(txt) > 5000 {
					txt = txt[:5000]
				}
				j.AddViolation(Violation{Prop: j.PropID, Sig: "race|" + sig, What: "race detector report: " + sig, Case: -1, Level: jb.level, Flavour: "race"}, "race", txt)
			}
		}
	}
}

// raceSig: the outermost-entry pair is approximated by the first fastgo frame
// of each of the two stacks, line numbers stripped.
func raceSig(blk string) string {
	var firsts []string
	inStack := false
	got := false
	for _, line := range strings.Split(blk, "\n") {
		l := strings.TrimSpace(line)
		if strings.HasPrefix(l, "Write at") || strings.HasPrefix(l, "Read at") || strings.HasPrefix(l, "Previous write at") || strings.HasPrefix(l, "Previous read at") {
			inStack, got = true, false
			continue
		}
		if l == "" {
			inStack = false
			continue
		}
		if inStack && !got && strings.Contains(l, "github.com/intel/fastgo") && !strings.HasPrefix(l, "/") {
			fn := l
			if k := strings.LastIndex(fn, "("); k > 0 {
				fn = fn[:k]
			}
			firsts = append(firsts, strings.TrimPrefix(fn, "github.com/intel/fastgo/"))
			got = true
		}
	}
	sort.Strings(firsts)
	if len(firsts) == 0 {
		return "no-fastgo-frame"
	}
	return strings.Join(firsts, "+")
}

// ---- known findings ----

type KnownEntry struct {
	Status    string `json:"status"` // finding | fixed
	Property  string `json:"property"`
	Signature string `json:"signature,omitempty"`
	Commit    string `json:"commit,omitempty"`
	What      string `json:"what"`
}

type KnownFile struct {
	Entries []KnownEntry `json:"entries"`
}

func loadKnown(dir string) []KnownEntry {
	b, err := os.ReadFile(filepath.Join(dir, "known_findings.json"))
	if err != nil {
		return nil
	}
	var k KnownFile
	if json.Unmarshal(b, &k) != nil {
		return nil
	}
	return k.Entries
}

func matchKnown(es []KnownEntry, v Violation) *KnownEntry {
	for i := range es {
		e := &es[i]
		if e.Status != "finding" || e.Property != v.Prop {
			continue
		}
		if e.Signature == v.Sig {
			return e
		}
	}
	return nil
}

// ---- verdict, replay files, evidence ----

func (j *Joined) finish(a ParentArgs, p Prop, wallS float64) int {
	known := loadKnown(a.VerifDir)
	var unlisted []int
	seenKnown := map[string]*KnownEntry{}
	knownCount := map[string]int{}
	for i, v := range j.Violations {
		if e := matchKnown(known, v); e != nil {
			seenKnown[e.Signature] = e
			knownCount[e.Signature]++
			continue
		}
		unlisted = append(unlisted, i)
	}
	var sigs []string
	for s := range seenKnown {
		sigs = append(sigs, s)
	}
	sort.Strings(sigs)
	for _, s := range sigs {
		fmt.Printf("KNOWN-FINDING: property=%s %s [signature %s, seen %d times]\n", j.PropID, seenKnown[s].What, s, knownCount[s])
	}
	// one replay file per distinct unlisted signature
	doneSig := map[string]bool{}
	var replayPaths []string
	if len(unlisted) > 0 {
		os.MkdirAll(filepath.Join(a.VerifDir, "replays"), 0o755)
	}
	for _, i := range unlisted {
		v := j.Violations[i]
		if doneSig[v.Sig] {
			continue
		}
		doneSig[v.Sig] = true
		h := sha256.Sum256([]byte(v.Sig))
		name := fmt.Sprintf("%s-%s-case%d-L%d-%s.json", j.PropID, hex.EncodeToString(h[:4]), v.Case, v.Level, v.Flavour)
		path := filepath.Join(a.VerifDir, "replays", name)
		vv := v
		rp := Replay{Property: j.PropID, Tier: j.Tier, Seed: j.Seed, Case: v.Case, Level: v.Level, Flavour: v.Flavour, Kind: j.kinds[i], Viol: &vv, Stderr: j.stderrs[i]}
		b, _ := json.MarshalIndent(&rp, "", " ")
		if a.Replay == nil {
			os.WriteFile(path, b, 0o644)
		} else {
			path = "(replayed)"
		}
		replayPaths = append(replayPaths, path)
		fmt.Printf("VIOLATION property=%s replay=%s\n", j.PropID, path)
		fmt.Printf("  signature: %s\n  what: %s\n  case=%d level=%d flavour=%s\n", v.Sig, v.What, v.Case, v.Level, v.Flavour)
	}
	for _, w := range j.Warnings {
		fmt.Printf("reach-warning: %s\n", w)
	}
	if a.Replay != nil {
		if len(unlisted) > 0 {
			return 1
		}
		if len(j.Inconclusive) > 0 {
			fmt.Printf("INCONCLUSIVE property=%s %s\n", j.PropID, strings.Join(j.Inconclusive, "; "))
			return 3
		}
		fmt.Printf("replay: property=%s held on the replayed case\n", j.PropID)
		return 0
	}
	if a.Impl == "stdlib" {
		fmt.Printf("control run against the standard library: %d cases, %d evaluations, %d reports\n", j.CasesRun, j.Evals, len(j.Violations))
		if len(unlisted) > 0 {
			return 1
		}
		return 0
	}
	// evidence
	cov := map[string]interface{}{
		"evaluations":         j.Evals,
		"distinct_nontrivial": len(j.Digests),
		"rule":                p.Rule(),
		"samples":             j.Samples,
		"cases_in_list":       p.NumCases(j.Tier),
		"case_executions":     j.CasesRun,
		"child_processes":     j.Children,
		"levels_run":          j.Levels,
		"levels_skipped":      j.Skipped,
		"flavours":            j.Flavours,
		"observations":        j.Counters,
		"observations_by_run": j.PerLevel,
		"maxima":              j.Maxes,
		"reach_warnings":      j.Warnings,
		"known_findings_seen": sigs,
		"unlisted_violations": len(unlisted),
		"inconclusive":        j.Inconclusive,
	}
	if len(j.Samples) == 0 {
		cov["samples"] = []interface{}{"no sample recorded"}
	}
	if ex, ok := p.(interface{ Exhaustive(tier string) bool }); ok && ex.Exhaustive(j.Tier) {
		cov["exhaustive"] = true
	}
	if ex, ok := p.(interface{ ExhaustiveScope(tier string) string }); ok {
		cov["exhaustive_scope"] = ex.ExhaustiveScope(j.Tier)
	}
	if j.RaceBlocks > 0 || contains(j.Flavours, "race") {
		cov["race_report_blocks"] = j.RaceBlocks
	}
	ev := map[string]interface{}{
		"property_id": j.PropID,
		"tier":        j.Tier,
		"seed":        j.Seed,
		"level":       p.EvidenceLevel(),
		"coverage":    cov,
		"wall_s":      wallS,
		"violations":  len(unlisted),
	}
	if as, ok := p.(Assumer); ok {
		ev["assumptions"] = as.Assumptions()
	}
	os.MkdirAll(filepath.Join(a.VerifDir, "evidence"), 0o755)
	b, _ := json.MarshalIndent(ev, "", " ")
	os.WriteFile(filepath.Join(a.VerifDir, "evidence", j.PropID+".json"), append(b, '\n'), 0o644)

	if len(unlisted) > 0 {
		return 1
	}
	if len(j.Inconclusive) > 0 {
		fmt.Printf("INCONCLUSIVE property=%s %s\n", j.PropID, strings.Join(j.Inconclusive, "; "))
		return 3
	}
	fmt.Printf("HELD property=%s tier=%s seed=%d: %d case executions (%d evaluations, %d distinct non-trivial) at levels %v, flavours %v, %.1fs\n",
		j.PropID, j.Tier, j.Seed, j.CasesRun, j.Evals, len(j.Digests), j.Levels, j.Flavours, wallS)
	return 0
}

func contains(s []string, x string) bool {
	for _, v := range s {
		if v == x {
			return true
		}
	}
	return false
}

func containsStr(l []string, s string) bool {
	for _, x := range l {
		if x == s {
			return true
		}
	}
	return false
}
