#!/bin/bash
cd /verif
for p in "$@"; do for m in A B; do d=/tmp/mut4/$p/MUTATION_$m; [ -f $d/patch.diff ] || continue
  r=$(tools/seedtest.sh $d/patch.diff $p 2>&1 | grep -E '^(caught by|suite|PATCH|C[0-9]+:)' | cut -c1-200 | tr '\n' ' ')
  echo "$p $m: $r"
done; done
