#!/bin/bash
# Warm the Go build cache for the harness flavours (offline; nothing is fetched).
set -u
cd "$(dirname "$0")/harness"
export GOFLAGS=-mod=mod GOPROXY=off GOSUMDB=off GOTOOLCHAIN=local
T=$(mktemp -d "$(pwd)/../.work.setup.XXXX")
trap 'rm -rf "$T"' EXIT
go build -tags verif -o "$T/p" ./cmd/fgmon || exit 1
go build -tags verif -gcflags=all=-d=checkptr -o "$T/c" ./cmd/fgmon || exit 1
go build -tags verif -race -o "$T/r" ./cmd/fgmon || exit 1
exit 0
