#!/bin/bash
cd /verif
export SEED_W=/tmp/w2/repo
t() { echo "$1 $2 vs $3: $(tools/seedtest.sh /tmp/mut4/$1/MUTATION_$2/patch.diff $3 2>&1 | grep -E '^(caught by)' )"; }
t C12 B "C12 C14"
t C06 A "C06 C13"
t C06 B "C06 C05 C08"
t C08 A "C05 C08"
t C08 B "C08 C06"
t C02 A "C13 C03 C04"
t C03 B "C13 C03"
t C02 B "C02 C03"
t C10 A "C10 C06"
t C09 A "C09 C06 C01"
t C13 B "C13 C06 C02"
t C17 B "C17"
t C18 A "C18 C01"
t C18 B "C18 C02 C04"
t C05 A "C05 C02"
t C05 B "C05 C02 C06"
t C07 A "C07"
t C07 B "C07"
